/* vp_arriter.c -- child iterator model over a sorted array (see vp_arriter.h).
 * Plain C89; no CBMC-only syntax (also compiled natively for replays). */
#include <stddef.h>
#include <stdint.h>
#include "vp.h"
#include "vp_arriter.h"

void *ldb_malloc(size_t size);

void
vp_arr_init(vp_arr_t *a, int order) {
  a->n = 0;
  a->order = order;
  a->status = 0;
  a->live = 0;
  a->created = 0;
  a->kcap = VP_ARR_MAXK;
  a->vcap = VP_ARR_MAXV;
}

void
vp_arr_add(vp_arr_t *a, const uint8_t *k, size_t kn,
           const uint8_t *v, size_t vn) {
  size_t i;
  int e = a->n;

  VP_ASSERT(e < VP_ARR_MAXN && kn <= VP_ARR_MAXK && vn <= VP_ARR_MAXV,
            "harness: vp_arr capacity");

  VP_ASSERT(kn <= a->kcap && vn <= a->vcap, "harness: vp_arr kcap/vcap");

  a->key[e] = vp_input(a->kcap);
  a->val[e] = vp_input(a->vcap);

  for (i = 0; i < kn; i++)
    a->key[e][i] = k[i];

  for (i = 0; i < vn; i++)
    a->val[e][i] = v[i];

  a->klen[e] = kn;
  a->vlen[e] = vn;
  a->n = e + 1;
}

void
vp_arr_add_internal(vp_arr_t *a, const uint8_t *uk, size_t ukn,
                    uint64_t seq, int type,
                    const uint8_t *v, size_t vn) {
  uint8_t tmp[VP_ARR_MAXK];
  uint64_t tag = (seq << 8) | (uint64_t)(type & 0xff);
  size_t i;

  VP_ASSERT(ukn + 8 <= VP_ARR_MAXK, "harness: vp_arr key capacity");

  for (i = 0; i < ukn; i++)
    tmp[i] = uk[i];

  for (i = 0; i < 8; i++)
    tmp[ukn + i] = (uint8_t)((tag >> (8 * i)) & 0xff);

  vp_arr_add(a, tmp, ukn + 8, v, vn);
}

static int
vp_bytes_compare(const uint8_t *x, size_t xn, const uint8_t *y, size_t yn) {
  size_t n = xn < yn ? xn : yn;
  size_t i;

  for (i = 0; i < n; i++) {
    if (x[i] != y[i])
      return x[i] < y[i] ? -1 : 1;
  }

  if (xn != yn)
    return xn < yn ? -1 : 1;

  return 0;
}

static uint64_t
vp_tag(const uint8_t *x, size_t xn) {
  uint64_t t = 0;
  size_t i;

  for (i = 0; i < 8; i++)
    t |= (uint64_t)x[xn - 8 + i] << (8 * i);

  return t;
}

int
vp_arr_compare(int order, const uint8_t *x, size_t xn,
               const uint8_t *y, size_t yn) {
  if (order == VP_ARR_INTERNAL) {
    int r;
    uint64_t xt, yt;

    VP_ASSERT(xn >= 8 && yn >= 8, "internal key shorter than 8 bytes given to child iterator");

    r = vp_bytes_compare(x, xn - 8, y, yn - 8);

    if (r != 0)
      return r;

    xt = vp_tag(x, xn);
    yt = vp_tag(y, yn);

    if (xt > yt)
      return -1;

    if (xt < yt)
      return 1;

    return 0;
  }

  return vp_bytes_compare(x, xn, y, yn);
}

int
vp_arr_sorted(const vp_arr_t *a) {
  int i;

  for (i = 0; i + 1 < a->n; i++) {
    if (vp_arr_compare(a->order, a->key[i], a->klen[i],
                       a->key[i + 1], a->klen[i + 1]) >= 0)
      return 0;
  }

  return 1;
}

/*
 * v-table
 */

void
vp_arr_clear(void *p) {
  vp_arrcur_t *c = (vp_arrcur_t *)p;
  c->arr->live--;
  if (c->in_use != NULL)
    *c->in_use = 0;
}

int
vp_arr_valid(const void *p) {
  const vp_arrcur_t *c = (const vp_arrcur_t *)p;
  return c->pos >= 0 && c->pos < c->arr->n;
}

void
vp_arr_first(void *p) {
  vp_arrcur_t *c = (vp_arrcur_t *)p;
  c->moves++;
  c->pos = 0;
}

void
vp_arr_last(void *p) {
  vp_arrcur_t *c = (vp_arrcur_t *)p;
  c->moves++;
  c->pos = c->arr->n - 1;
}

void
vp_arr_seek(void *p, const ldb_slice_t *target) {
  vp_arrcur_t *c = (vp_arrcur_t *)p;
  const vp_arr_t *a = c->arr;
  int i;

  c->moves++;

  for (i = 0; i < a->n; i++) {
    if (vp_arr_compare(a->order, a->key[i], a->klen[i],
                       target->data, target->size) >= 0)
      break;
  }

  c->pos = i;
}

void
vp_arr_next(void *p) {
  vp_arrcur_t *c = (vp_arrcur_t *)p;
  VP_ASSERT(vp_arr_valid(p), "child next() called on an invalid iterator (REQUIRES: valid)");
  c->moves++;
  c->pos++;
}

void
vp_arr_prev(void *p) {
  vp_arrcur_t *c = (vp_arrcur_t *)p;
  VP_ASSERT(vp_arr_valid(p), "child prev() called on an invalid iterator (REQUIRES: valid)");
  c->moves++;
  c->pos--;
}

ldb_slice_t
vp_arr_key(const void *p) {
  const vp_arrcur_t *c = (const vp_arrcur_t *)p;
  ldb_slice_t z;
  int i;

  VP_ASSERT(vp_arr_valid(p), "child key() called on an invalid iterator (REQUIRES: valid)");

  /* if-chain over concrete entries (cheap for the symbolic executor; note
     that CBMC 6.11 also mis-models the decay of a 2-D array row at a
     symbolic index, which an earlier in-struct layout ran into) */
  /* starts from entry 0 (not NULL/0) so that a length shared by all entries
     stays a constant for the symbolic executor */
  z.data = c->arr->key[0];
  z.size = c->arr->klen[0];
  z.alloc = 0;

  for (i = 1; i < c->arr->n; i++) {
    if (i == c->pos) {
      z.data = c->arr->key[i];
      z.size = c->arr->klen[i];
    }
  }

  return z;
}

ldb_slice_t
vp_arr_value(const void *p) {
  const vp_arrcur_t *c = (const vp_arrcur_t *)p;
  ldb_slice_t z;
  int i;

  VP_ASSERT(vp_arr_valid(p), "child value() called on an invalid iterator (REQUIRES: valid)");

  z.data = c->arr->val[0];
  z.size = c->arr->vlen[0];
  z.alloc = 0;

  for (i = 1; i < c->arr->n; i++) {
    if (i == c->pos) {
      z.data = c->arr->val[i];
      z.size = c->arr->vlen[i];
    }
  }

  return z;
}

int
vp_arr_status(const void *p) {
  const vp_arrcur_t *c = (const vp_arrcur_t *)p;
  return c->arr->status;
}

/* restriction target for the cleanup call sites of ldb_iter_clear
   (iter->cleanup_head.func / node->func): no harness registers a cleanup */
void
vp_arr_noop_cleanup(void *arg1, void *arg2) {
  (void)arg1;
  (void)arg2;
  VP_ASSERT(0, "a cleanup function ran although none was registered");
}

const ldb_itertbl_t vp_arr_table = {
  /* .clear = */ vp_arr_clear,
  /* .valid = */ vp_arr_valid,
  /* .first = */ vp_arr_first,
  /* .last = */ vp_arr_last,
  /* .seek = */ vp_arr_seek,
  /* .next = */ vp_arr_next,
  /* .prev = */ vp_arr_prev,
  /* .key = */ vp_arr_key,
  /* .value = */ vp_arr_value,
  /* .status = */ vp_arr_status
};

ldb_iter_t *
vp_arriter_create(vp_arr_t *a, const struct ldb_comparator_s *cmp) {
  vp_arrcur_t *c = (vp_arrcur_t *)ldb_malloc(sizeof(vp_arrcur_t));

  c->arr = a;
  c->pos = -1;
  c->moves = 0;
  c->in_use = NULL;

  a->live++;
  a->created++;

  return ldb_iter_create(c, &vp_arr_table, cmp);
}

ldb_iter_t *
vp_arriter_create_in(vp_arr_t *a, const struct ldb_comparator_s *cmp,
                     vp_arrslot_t *slot) {
#ifdef VP_REPLAY
  (void)slot;
  return vp_arriter_create(a, cmp);
#else
  VP_ASSERT(!slot->in_use, "vp-model: iterator slot reused while its iterator is alive");

  slot->in_use = 1;
  slot->cur.arr = a;
  slot->cur.pos = -1;
  slot->cur.moves = 0;
  slot->cur.in_use = &slot->in_use;

  a->live++;
  a->created++;

  /* what ldb_iter_create() does, in place */
  slot->it.ptr = &slot->cur;
  slot->it.cleanup_head.func = NULL;
  slot->it.cleanup_head.arg1 = NULL;
  slot->it.cleanup_head.arg2 = NULL;
  slot->it.cleanup_head.next = NULL;
  slot->it.table = &vp_arr_table;
  slot->it.cmp = cmp;

  return &slot->it;
#endif
}

/* model of ldb_iter_destroy() for a vp_arriter (use with
   goto-instrument --replace-calls ldb_iter_destroy:vp_arr_iter_destroy):
   runs the model's clear() and releases nothing -- no cleanup list walk, no
   free() of objects with a large value set */
void
vp_arr_iter_destroy(ldb_iter_t *iter) {
  VP_ASSERT(iter->table == &vp_arr_table, "vp-model: vp_arr_iter_destroy on a foreign iterator");
  VP_ASSERT(iter->cleanup_head.func == NULL, "vp-model: vp_arr_iter_destroy with a registered cleanup");
  vp_arr_clear(iter->ptr);
}

int
vp_arriter_pos(const ldb_iter_t *it) {
  const vp_arrcur_t *c = (const vp_arrcur_t *)it->ptr;
  return vp_arr_valid(c) ? c->pos : -1;
}

void
vp_arriter_set_pos(ldb_iter_t *it, int p) {
  vp_arrcur_t *c = (vp_arrcur_t *)it->ptr;
  c->pos = (p >= 0 && p < c->arr->n) ? p : -1;
}
