/* vp_alloc_c17.c -- allocator model with fixed-size slabs (DESIGN R2) for the
 * C17 / C14 harnesses (version_edit.c / version_set.c), where buffer sizes are
 * symbolic to the symbolic executor (varint-encoded fields make every offset
 * of a MANIFEST record symbolic).  Owner: C17/C14 builder.
 *
 * ldb_malloc        -> malloc + assume non-null (as kit/vp_alloc.c).
 * ldb_realloc       -> the first request for a buffer returns a fresh object
 *                      of VP_SLAB bytes, later requests return the same
 *                      object (no copy); a request above VP_SLAB is reported
 *                      ("vp-model:", a broken check, never a truncation).
 *                      Consequence: an overrun beyond the requested size but
 *                      inside the slab, and a stale pointer kept across a
 *                      growth, are not seen by CBMC (the native replay uses
 *                      libc realloc under ASan and sees both).
 * vp_realloc_ptrs   -> same for arrays of pointers (ldb_vector_t items): a
 *                      typed void*[VP_VEC_CAP] object, so that no pointer is
 *                      ever stored in a byte array (R5).  Reached by including
 *                      the real util/vector.c through kit/vp_vector_inc.h.
 * Do not link together with another allocator model.
 */
#include <stdlib.h>
#include <string.h>
#include "vp.h"

#ifdef VP_REPLAY

void *ldb_malloc(size_t size) {
  void *p = malloc(size);
  if (p == NULL) abort();
  return p;
}
void *ldb_realloc(void *ptr, size_t size) {
  ptr = realloc(ptr, size);
  if (ptr == NULL) abort();
  return ptr;
}
void *vp_realloc_ptrs(void *ptr, size_t size) {
  return ldb_realloc(ptr, size);
}
void ldb_free(void *ptr) { if (ptr != NULL) free(ptr); }

#else

#ifndef VP_SLAB
#define VP_SLAB 256
#endif
#ifndef VP_VEC_CAP
#define VP_VEC_CAP 8
#endif

void *
ldb_malloc(size_t size) {
  void *p = malloc(size);
  __CPROVER_assume(p != NULL);
  return p;
}

void *
ldb_realloc(void *ptr, size_t size) {
  __CPROVER_assert(size <= VP_SLAB, "vp-model: ldb_realloc request fits the slab (VP_SLAB)");
  if (ptr == NULL) {
    unsigned char *p = (unsigned char *)malloc(VP_SLAB);
    __CPROVER_assume(p != NULL);
    return p;
  }
  return ptr;
}

void *
vp_realloc_ptrs(void *ptr, size_t size) {
  __CPROVER_assert(size <= VP_VEC_CAP * sizeof(void *),
                   "vp-model: vector request fits the typed slab (VP_VEC_CAP)");
  if (ptr == NULL) {
    void **p = (void **)malloc(sizeof(void *) * VP_VEC_CAP);
    __CPROVER_assume(p != NULL);
    return p;
  }
  return ptr;
}

void
ldb_free(void *ptr) {
  if (ptr != NULL)
    free(ptr);
}

#endif
