/* vp_alloc_slab.c -- allocator model with CONCRETE object sizes, for units
 * whose allocation sizes depend on untrusted input (the C18 decoders).
 *
 * kit/vp_alloc.c hands `malloc(size)` with a symbolic size to CBMC; every
 * such object is an unbounded array and the array theory makes the block /
 * version-edit / log-reader harnesses time out (measured: block first N=12
 * > 300 s; with this model 30 s).  Here:
 *
 * ldb_malloc(size)  -> malloc + assume non-null (sizes are sizeof(struct)).
 * ldb_realloc(p, n) -> a fresh object of exactly VP_SLAB bytes (-DVP_SLAB=..,
 *     concrete per obligation); the buffer is RIGHT-ALIGNED in it: the
 *     returned pointer is base + (VP_SLAB - n), so that a write or read past
 *     the n requested bytes runs off the end of the object and is caught by
 *     CBMC's bounds check exactly as with an n-byte object.  (An access
 *     *before* the buffer start, inside the slab, is not caught.)
 *     Old contents are copied (old size = VP_SLAB - offset of the old
 *     pointer), the old slab is freed.
 *     `n > VP_SLAB` is a "vp-model:" assertion: the check is reported as
 *     broken (never silently truncated) -- choose VP_SLAB from the input size.
 * ldb_free(p)       -> free of the object's base address.
 *
 * No loops.
 * Under VP_REPLAY the libc allocator is used (ASan checks exact sizes).
 */
#include <stdlib.h>
#include <string.h>
#include "vp.h"

#ifdef VP_REPLAY

void *ldb_malloc(size_t size) {
  void *p = malloc(size);
  if (p == NULL) abort();
  return p;
}
void *ldb_realloc(void *ptr, size_t size) {
  ptr = realloc(ptr, size);
  if (ptr == NULL) abort();
  return ptr;
}
void *vp_realloc_ptrs(void *ptr, size_t size) { return ldb_realloc(ptr, size); }
void ldb_free(void *ptr) { if (ptr != NULL) free(ptr); }

#else

#ifndef VP_SLAB
#define VP_SLAB 64
#endif

size_t vp_alloc_max_request = 0;

void *
ldb_malloc(size_t size) {
  void *p = malloc(size);
  __CPROVER_assume(p != NULL);
  return p;
}

void *
ldb_realloc(void *ptr, size_t size) {
  uint8_t *base, *np;
  size_t i, old;

  if (size > vp_alloc_max_request)
    vp_alloc_max_request = size;

  __CPROVER_assert(size <= VP_SLAB, "vp-model: ldb_realloc request larger than VP_SLAB");

  base = (uint8_t *)malloc(VP_SLAB);
  __CPROVER_assume(base != NULL);
  np = base + (VP_SLAB - size);

  if (ptr != NULL) {
    __CPROVER_assert(__CPROVER_OBJECT_SIZE(ptr) == VP_SLAB,
                     "vp-model: ldb_realloc of a pointer not from ldb_realloc");
    old = VP_SLAB - __CPROVER_POINTER_OFFSET(ptr);
    if (old > size)
      old = size;
    for (i = 0; i < old; i++)
      np[i] = ((uint8_t *)ptr)[i];
    free((uint8_t *)ptr - __CPROVER_POINTER_OFFSET(ptr));
  }

  return np;
}

#ifndef VP_VEC_CAP
#define VP_VEC_CAP 8
#endif

void *
vp_realloc_ptrs(void *ptr, size_t size) {
  void **np;
  size_t i;

  __CPROVER_assert(size <= VP_VEC_CAP * sizeof(void *), "vp-model: vector larger than VP_VEC_CAP");

  if (ptr != NULL)
    return ptr;

  np = (void **)malloc(VP_VEC_CAP * sizeof(void *));
  __CPROVER_assume(np != NULL);
  for (i = 0; i < VP_VEC_CAP; i++)
    np[i] = NULL;
  return np;
}

void
ldb_free(void *ptr) {
  if (ptr != NULL)
    free((uint8_t *)ptr - __CPROVER_POINTER_OFFSET(ptr));
}

#endif
