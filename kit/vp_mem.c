/* vp_mem.c -- byte-loop mem* (DESIGN R3).  CBMC only. */
#ifndef VP_REPLAY
#include <stddef.h>

void *
memcpy(void *dst, const void *src, size_t n) {
  unsigned char *d = (unsigned char *)dst;
  const unsigned char *s = (const unsigned char *)src;
  size_t i;
  for (i = 0; i < n; i++)
    d[i] = s[i];
  return dst;
}

void *
memmove(void *dst, const void *src, size_t n) {
  unsigned char *d = (unsigned char *)dst;
  const unsigned char *s = (const unsigned char *)src;
  size_t i;
  if (d == s)
    return dst;
  if (__CPROVER_POINTER_OBJECT(d) != __CPROVER_POINTER_OBJECT(s) || d < s) {
    for (i = 0; i < n; i++)
      d[i] = s[i];
  } else {
    for (i = n; i > 0; i--)
      d[i - 1] = s[i - 1];
  }
  return dst;
}

void *
memset(void *dst, int c, size_t n) {
  unsigned char *d = (unsigned char *)dst;
  size_t i;
  for (i = 0; i < n; i++)
    d[i] = (unsigned char)c;
  return dst;
}

int
memcmp(const void *a, const void *b, size_t n) {
  const unsigned char *x = (const unsigned char *)a;
  const unsigned char *y = (const unsigned char *)b;
  size_t i;
  for (i = 0; i < n; i++) {
    if (x[i] != y[i])
      return x[i] < y[i] ? -1 : 1;
  }
  return 0;
}

size_t
strlen(const char *s) {
  size_t i = 0;
  while (s[i] != 0)
    i++;
  return i;
}
#else
typedef int vp_mem_unused;
#endif
