/* vp_alloc_d4.c -- allocator model of the compaction harness
 * (harness/dbimpl/compact.c; DESIGN R2/R5).  Do not link together with another
 * vp_alloc*.c.
 *
 * ldb_malloc      -> malloc + assume non-null (allocation failure is abort()
 *                    in lcdb: out of scope).
 * ldb_realloc     -> byte buffers (ldb_buffer_t) of this harness are sized
 *                    exactly once (all keys have the same length): a first
 *                    request (ptr == NULL) is a fresh object of exactly the
 *                    requested size; a request to GROW an existing buffer is
 *                    reported ("vp-model:", a broken check, never a
 *                    truncation).  No side table, no pointer comparisons.
 * vp_realloc_ptrs -> growth of an ldb_vector_t item array (the real
 *                    util/vector.c is #included by the harness with its one
 *                    ldb_realloc call routed here): the first request returns
 *                    a typed void*[VP_VEC_CAP] object, later requests return
 *                    the same object; a request above the capacity is reported
 *                    ("vp-model:").  No pointer is ever stored in a byte array.
 * ldb_free        -> free(); with -DVP_NOFREE a no-op (larger configurations:
 *                    CBMC's deallocation bookkeeping is a large part of the
 *                    formula).
 * Under VP_REPLAY the libc allocator is used (ASan checks the exact sizes).
 */
#include <stdlib.h>
#include <string.h>
#include "vp.h"

#ifdef VP_REPLAY

void *ldb_malloc(size_t size) {
  void *p = malloc(size);
  if (p == NULL) abort();
  return p;
}
void *ldb_realloc(void *ptr, size_t size) {
  ptr = realloc(ptr, size);
  if (ptr == NULL) abort();
  return ptr;
}
void *vp_realloc_ptrs(void *ptr, size_t size) {
  return ldb_realloc(ptr, size);
}
void ldb_free(void *ptr) { if (ptr != NULL) free(ptr); }

#else

#ifndef VP_VEC_CAP
#define VP_VEC_CAP 8
#endif

void *
ldb_malloc(size_t size) {
  void *p = malloc(size);
  __CPROVER_assume(p != NULL);
  return p;
}

void *
ldb_realloc(void *ptr, size_t size) {
  void *p;
  __CPROVER_assert(ptr == NULL, "vp-model: byte buffers of this harness are sized once (no regrow)");
  p = malloc(size);
  __CPROVER_assume(p != NULL);
  return p;
}

void *
vp_realloc_ptrs(void *ptr, size_t size) {
  __CPROVER_assert(size <= VP_VEC_CAP * sizeof(void *),
                   "vp-model: vector request fits the typed slab (VP_VEC_CAP)");
  if (ptr == NULL) {
    void **p = (void **)malloc(sizeof(void *) * VP_VEC_CAP);
    __CPROVER_assume(p != NULL);
    return p;
  }
  return ptr;
}

void
ldb_free(void *ptr) {
#if defined(VP_NOFREE) && VP_NOFREE
  /* -DVP_NOFREE: memory is never released (no reuse; CBMC then cannot see a
     use after free -- the harness monitors object lifetimes with ghost
     state, the ASan replay uses the libc allocator) */
  (void)ptr;
#else
  if (ptr != NULL)
    free(ptr);
#endif
}

#endif
