/* vp.h -- harness kit for solver-based checking of lcdb (CBMC) and for
 * the native replay of counterexamples (gcc + ASan/UBSan, -DVP_REPLAY).
 *
 * C89 on purpose: harnesses may #include real lcdb .c files and are compiled
 * with the flags of the pinned build (-std=c90).
 */
#ifndef VP_H
#define VP_H

#include <stddef.h>
#include <stdint.h>

#ifdef VP_REPLAY
void vp_fail(const char *msg, const char *file, int line);
void vp_assume_fail(const char *file, int line);
void vp_note(const char *msg);
#  define VP_ASSERT(c, msg) \
     do { if (!(c)) vp_fail(msg, __FILE__, __LINE__); } while (0)
#  define VP_ASSUME(c) \
     do { if (!(c)) vp_assume_fail(__FILE__, __LINE__); } while (0)
#  define VP_WITNESS(label) vp_note("witness:" label)
#else
#  define VP_ASSERT(c, msg) __CPROVER_assert((c), "vp:" msg)
#  define VP_ASSUME(c) __CPROVER_assume(c)
   /* Reachability witness: must come back FAILED, see lib/vp.py. */
#  define VP_WITNESS(label) __CPROVER_assert(0, "vp-witness:" label)
#endif

/* Every symbolic input goes through these (the replay feeds the values
 * of the solver's counterexample back in call order). */
uint8_t vp_u8(void);
uint16_t vp_u16(void);
uint32_t vp_u32(void);
uint64_t vp_u64(void);
int vp_int(void);
int vp_bool(void);
size_t vp_size(void);
void vp_fill(uint8_t *p, size_t n);

/* exact-size input object: heap under replay (ASan red zones), malloc
 * object under CBMC. */
uint8_t *vp_input(size_t n);

#endif /* VP_H */
