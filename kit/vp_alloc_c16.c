/* vp_alloc_c16.c -- allocator model (DESIGN R2, fixed slabs) for the C16
 * builder harnesses.  Owner: C16.  Do not link together with kit/vp_alloc.c.
 *
 * The block / table / filter builders grow several ldb_buffer_t / ldb_array_t
 * objects a dozen times per query, and every size depends on symbolic data
 * (the shared-prefix length of two symbolic keys), so with exact-size objects
 * every buffer is a heap object of symbolic size and every realloc copy loop
 * runs to its unwinding bound (measured: block builder, 2 entries: > 11 GB,
 * no verdict).  Here:
 *
 *   ldb_malloc(n)        -> malloc + assume non-null (n is sizeof(struct)).
 *   ldb_realloc(NULL, n) -> a fresh heap object of the CONSTANT size VP_SLAB.
 *   ldb_realloc(p, n)    -> p itself (the slab is already large enough).
 *   n > VP_SLAB          -> "vp-model:" assertion: the obligation is reported
 *                           as broken, never silently truncated.
 *   ldb_free             -> free.
 *
 * Consequences (stated in the evidence): an overrun of a builder's own buffer
 * beyond the requested size but inside the slab, and a stale pointer kept
 * across a growth, are not seen by CBMC; the native replay of a
 * counterexample uses libc realloc under ASan and sees both.  Buffers handed
 * to the unit by the harness (vp_input) keep their exact size.
 * No loops.
 */
#include <stdlib.h>
#include <string.h>
#include "vp.h"

#ifdef VP_REPLAY

void *ldb_malloc(size_t size) {
  void *p = malloc(size);
  if (p == NULL) abort();
  return p;
}
void *ldb_realloc(void *ptr, size_t size) {
  ptr = realloc(ptr, size);
  if (ptr == NULL) abort();
  return ptr;
}
void ldb_free(void *ptr) { if (ptr != NULL) free(ptr); }

#else

#ifndef VP_SLAB
#define VP_SLAB 64
#endif

void *
ldb_malloc(size_t size) {
  void *p = malloc(size);
  __CPROVER_assume(p != NULL);
  return p;
}

void *
ldb_realloc(void *ptr, size_t size) {
  __CPROVER_assert(size <= VP_SLAB, "vp-model: ldb_realloc request exceeds VP_SLAB");

  if (ptr == NULL) {
    uint8_t *np = (uint8_t *)malloc(VP_SLAB);
    __CPROVER_assume(np != NULL);
    return np;
  }

  __CPROVER_assert(__CPROVER_OBJECT_SIZE(ptr) == VP_SLAB && __CPROVER_POINTER_OFFSET(ptr) == 0,
                   "vp-model: ldb_realloc of a pointer that did not come from ldb_realloc");
  return ptr;
}

void
ldb_free(void *ptr) {
  if (ptr != NULL)
    free(ptr);
}

#endif
