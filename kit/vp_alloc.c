/* vp_alloc.c -- allocator model (DESIGN R2).
 *
 * ldb_malloc  -> malloc + assume non-null (allocation failure is abort() in
 *                lcdb: out of scope).
 * ldb_realloc -> fresh malloc + byte copy of the old contents (old size is
 *                tracked in a small side table), old block freed.  Sizes are
 *                concrete in every harness (R1) so this stays cheap.
 * Under VP_REPLAY the libc allocator is used (ASan checks the exact sizes).
 */
#include <stdlib.h>
#include <string.h>
#include "vp.h"

#ifdef VP_REPLAY

void *ldb_malloc(size_t size) {
  void *p = malloc(size);
  if (p == NULL) abort();
  return p;
}
void *ldb_realloc(void *ptr, size_t size) {
  ptr = realloc(ptr, size);
  if (ptr == NULL) abort();
  return ptr;
}
void ldb_free(void *ptr) { if (ptr != NULL) free(ptr); }
void *vp_realloc_ptrs(void *ptr, size_t size) { return ldb_realloc(ptr, size); }

#else

#ifndef VP_ALLOC_TRACK
#define VP_ALLOC_TRACK 24
#endif

static void *vp_rptr[VP_ALLOC_TRACK];
static size_t vp_rsize[VP_ALLOC_TRACK];
static int vp_rn = 0;
size_t vp_alloc_max_request = 0;

void *
ldb_malloc(size_t size) {
  void *p;
  if (size > vp_alloc_max_request)
    vp_alloc_max_request = size;
  p = malloc(size);
  __CPROVER_assume(p != NULL);
  return p;
}

void *
ldb_realloc(void *ptr, size_t size) {
  uint8_t *np;
  size_t old = 0, i, n;
  int k, slot = -1;

  if (size > vp_alloc_max_request)
    vp_alloc_max_request = size;

  for (k = 0; k < vp_rn; k++) {
    if (ptr != NULL && vp_rptr[k] == ptr) {
      old = vp_rsize[k];
      slot = k;
    }
  }

  __CPROVER_assert(ptr == NULL || slot >= 0,
                   "vp-model: ldb_realloc of a pointer not from ldb_realloc");

  np = (uint8_t *)malloc(size);
  __CPROVER_assume(np != NULL);

  n = old < size ? old : size;
  for (i = 0; i < n; i++)
    np[i] = ((uint8_t *)ptr)[i];

  if (ptr != NULL)
    free(ptr);

  if (slot < 0) {
    __CPROVER_assert(vp_rn < VP_ALLOC_TRACK, "vp-model: realloc table full");
    slot = vp_rn++;
  }

  vp_rptr[slot] = np;
  vp_rsize[slot] = size;

  return np;
}

void
ldb_free(void *ptr) {
  if (ptr != NULL)
    free(ptr);
}

/* Arrays of pointers (ldb_vector_t items, reached through
   kit/vp_vector_inc.h): a TYPED void*[] object with element-wise copy, so
   that no pointer is ever stored in a byte array (DESIGN R5). */
#ifndef VP_VEC_TRACK
#define VP_VEC_TRACK 8
#endif
static void **vp_vptr[VP_VEC_TRACK];
static size_t vp_vcnt[VP_VEC_TRACK];
static int vp_vn = 0;

void *
vp_realloc_ptrs(void *ptr, size_t size) {
  size_t cnt = size / sizeof(void *), old = 0, i, n;
  void **np, **op = (void **)ptr;
  int k, slot = -1;

  for (k = 0; k < vp_vn; k++) {
    if (ptr != NULL && (void *)vp_vptr[k] == ptr) {
      old = vp_vcnt[k];
      slot = k;
    }
  }

  __CPROVER_assert(ptr == NULL || slot >= 0,
                   "vp-model: vector realloc of a pointer not from vp_realloc_ptrs");

  np = (void **)malloc(cnt * sizeof(void *));
  __CPROVER_assume(np != NULL);

  n = old < cnt ? old : cnt;
  for (i = 0; i < n; i++)
    np[i] = op[i];
  /* fresh slots hold NULL rather than an arbitrary pointer: reading one and
     dereferencing it is still reported (NULL dereference), but symex does not
     have to consider every object of the program as a possible target */
  for (i = n; i < cnt; i++)
    np[i] = NULL;

  if (ptr != NULL)
    free(ptr);

  if (slot < 0) {
    __CPROVER_assert(vp_vn < VP_VEC_TRACK, "vp-model: vector table full");
    slot = vp_vn++;
  }

  vp_vptr[slot] = np;
  vp_vcnt[slot] = cnt;

  return np;
}

#endif
