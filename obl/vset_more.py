"""More obligations over the real version_set.c (harness/vset/*.c except get.c).

Factories (each returns a list of Obl; `prefix` = DESIGN sub-item letter of the importing property):
  overlap_obls(prefix)      C01.e / C14.d  find_file, some_file_overlaps_range, overlap_in_level,
                                           get_overlapping_inputs, pick_level_for_memtable_output
  baselevel_obls(prefix)    C01.d          ldb_compaction_is_base_level_for_key (stateful cursor)
  boundary_obls(prefix)     C01.f / C14.b  add_boundary_inputs, setup_other_inputs, pick_compaction,
                                           compact_range, is_trivial_move
  apply_obls(prefix)        C02.d / C05.b / C17  ldb_versions_apply ordering monitor
  versionlist_obls(prefix)  C13.b          append_version / ref / unref / add_files on a version list

`./check vset_more` runs all of them (development entry point).
"""
from vp import Obl

KIT = ["vp_nondet.c", "vp_mem.c", "vp_d5_alloc.c"]
VEC = {"vp_realloc_ptrs.0": 11}   # VP_VEC_CAP + 1
VER_REAL = ["dbformat.c", "util/comparator.c", "util/buffer.c", "util/slice.c", "util/options.c"]
INC = ["version_set.c", "util/vector.c"]

# comparator calls of the #included version_set.c go through vp_compare() of harness/vset/ver.h (one indirect call left);
# the restriction is itself asserted by CBMC
CMP_FP = ["vp_compare.function_pointer_call.1/ldb_ikc_compare,slice_compare", "ldb_ikc_compare.function_pointer_call.1/slice_compare"]
OVL_FP = CMP_FP
GOI_FP = []


def _levels(t):
    return dict(("VP_N%d" % i, n) for i, n in enumerate(t) if n)


def _lname(t):
    return "-".join("L%dx%d" % (i, n) for i, n in enumerate(t) if n) or "empty"


def overlap_obls(prefix):
    out = []
    # find_file: level 1 with 0..3 files
    for n, tier in ((0, "quick"), (1, "quick"), (2, "quick"), (3, "quick"), (4, "thorough")):
        out.append(Obl("%s.find-file-N%d" % (prefix, n), "vset/overlap.c", real=VER_REAL, include_real=INC, kit=KIT,
                       defs={"VP_MODE": 0, "VP_LV": 1, "VP_N1": n}, unwind=9,
                       unwindset={"memcmp.0": 2, "ldb_find_file.0": 4},
                       restrict_fp=CMP_FP, tier=tier, timeout=300,
                       functions=["ldb_find_file", "ldb_ikc_compare"],
                       desc="find_file == first file whose largest internal key >= target (linear reference), sorted/disjoint level",
                       bounds="%d files, 1-byte user keys, sequences 0..7, both types" % n))
    # some_file_overlaps_range / overlap_in_level: level 0 (scan) and level 1 (binary search)
    for lv, n, tier in ((0, 1, "quick"), (0, 2, "quick"), (0, 3, "thorough"), (1, 0, "quick"), (1, 1, "quick"), (1, 2, "quick"),
                        (1, 3, "quick"), (1, 4, "thorough"), (6, 2, "quick")):
        out.append(Obl("%s.overlaps-range-L%d-N%d" % (prefix, lv, n), "vset/overlap.c", real=VER_REAL, include_real=INC, kit=KIT,
                       defs={"VP_MODE": 1, "VP_LV": lv, "VP_N%d" % lv: n}, unwind=9,
                       unwindset={"memcmp.0": 2, "memcpy.0": 3, "ldb_find_file.0": 4},
                       restrict_fp=OVL_FP, tier=tier, timeout=300,
                       functions=["ldb_some_file_overlaps_range", "ldb_version_overlap_in_level", "after_file", "before_file",
                                  "ldb_find_file", "ldb_ikey_set"],
                       desc="some_file_overlaps_range (%s mode) and ldb_version_overlap_in_level == brute force over the files; range ends independently open"
                            % ("disjoint-sorted" if lv else "level-0 scan"),
                       bounds="%d files in level %d, 1-byte user keys, sequences 0..7" % (n, lv)))
    # get_overlapping_inputs: level 0 (closure with restart) and level 2
    for lv, n, tier in ((0, 1, "quick"), (0, 2, "quick"), (0, 3, "quick"), (2, 1, "quick"), (2, 2, "quick"), (2, 3, "quick"),
                        (6, 2, "quick")):
        out.append(Obl("%s.overlapping-inputs-L%d-N%d" % (prefix, lv, n), "vset/overlap.c", real=VER_REAL, include_real=INC, kit=KIT,
                       defs=dict({"VP_MODE": 3, "VP_LV": lv, "VP_N%d" % lv: n, "VP_VEC_CAP": 10},
                                 **({"VP_KEYMAX": 7, "VP_SEQMAX": 0} if lv == 0 else {})), unwind=9, flags=["--slice-formula"],
                       unwindset={"memcmp.0": 2, "vp_realloc_ptrs.0": 11, "harness.0": 11,
                                  "ldb_version_get_overlapping_inputs.0": ((2 * n + 1) * n + 1) if lv == 0 else n + 1},
                       restrict_fp=CMP_FP, tier=tier, timeout=600,
                       functions=["ldb_version_get_overlapping_inputs"],
                       desc="ldb_version_get_overlapping_inputs: level >= 1 exactly the files meeting the user-key range in order; level 0 == the transitive closure of the range under overlap (brute-force fixpoint, both sides)",
                       bounds="%d files in level %d, begin/end independently NULL, 1-byte user keys %s" % (n, lv, "0..7 (8 values realise every order of 6 bounds + 2 range ends; tags are not read)" if lv == 0 else "0..15")))
    # pick_level_for_memtable_output
    for t, tier in (((1, 1, 1, 1), "quick"), ((2, 1, 0, 1), "quick"), ((0, 2, 1, 0), "quick"), ((1, 0, 2, 1), "quick"),
                    ((0, 1, 1, 2), "quick"), ((0, 0, 0, 0), "quick"), ((2, 2, 2, 2), "thorough"), ((1, 2, 2, 2), "thorough")):
        out.append(Obl("%s.pick-level-%s" % (prefix, _lname(t)), "vset/overlap.c", real=VER_REAL, include_real=INC, kit=KIT,
                       defs=dict(_levels(t), VP_MODE=2, VP_VEC_CAP=10), unwind=9,
                       unwindset={"memcmp.0": 2, "memcpy.0": 3, "ldb_find_file.0": 4,
                                  "vp_realloc_ptrs.0": 11, "harness.0": 11},
                       restrict_fp=OVL_FP + GOI_FP, tier=tier, timeout=400,
                       functions=["ldb_version_pick_level_for_memtable_output", "ldb_version_overlap_in_level",
                                  "ldb_some_file_overlaps_range", "ldb_version_get_overlapping_inputs", "total_file_size",
                                  "max_grandparent_overlap_bytes"],
                       desc="flush placement: level <= 2, no overlap in levels 0..L, grandparent bytes <= 10*max_file_size on the way, == rule",
                       bounds="files per level 0..3 = %s, sizes 0..4000, max_file_size 100, 1-byte user keys" % (t,)))
    return out


def baselevel_obls(prefix):
    out = []
    # (compaction level, files per level 0..6, keys, tier); every config has files in levels >= level+2 only
    cfg = ((4, (0, 0, 0, 0, 0, 0, 2), 2, "quick"), (4, (0, 0, 0, 0, 0, 0, 3), 3, "quick"), (3, (0, 0, 0, 0, 0, 2, 2), 2, "quick"),
           (0, (0, 0, 2, 2, 0, 0, 0), 3, "quick"), (1, (0, 0, 0, 2, 1, 1, 2), 2, "quick"), (0, (0, 0, 1, 1, 1, 1, 1), 2, "quick"),
           (0, (0, 0, 2, 2, 2, 2, 2), 2, "thorough"), (2, (0, 0, 0, 0, 3, 3, 3), 3, "thorough"))
    for cl, t, q, tier in cfg:
        mx = max(t)
        out.append(Obl("%s.base-level-C%d-%s-Q%d" % (prefix, cl, _lname(t), q), "vset/baselevel.c", real=VER_REAL, include_real=INC, kit=KIT,
                       defs=dict(_levels(t), VP_CL=cl, VP_Q=q), unwind=11,
                       unwindset={"memcmp.0": 2, "ldb_compaction_is_base_level_for_key.0": mx + 1,
                                  "ldb_compaction_is_base_level_for_key.1": 8},
                       restrict_fp=CMP_FP, tier=tier, timeout=400, unwind_is_violation=True,
                       functions=["ldb_compaction_is_base_level_for_key"],
                       desc="is_base_level_for_key over a non-decreasing key sequence (stateful cursor) == no file in levels >= level+2 contains the key; "
                            "terminates within files+1 steps per level",
                       bounds="compaction level %d, files per level %s, %d non-decreasing 1-byte user keys (domain 0..15), sequences 0..7, "
                              "user keys may straddle adjacent files" % (cl, t, q)))
    return out


BD_MODES = {0: "add-boundary", 1: "pick-size", 2: "pick-seek", 3: "compact-range"}
BD_FUNCS = ["ldb_add_boundary_inputs", "find_smallest_boundary_file", "find_largest_key", "ldb_versions_setup_other_inputs",
            "ldb_versions_pick_compaction", "ldb_versions_compact_range", "ldb_version_get_overlapping_inputs",
            "ldb_versions_get_range", "ldb_versions_get_range2", "ldb_compaction_is_trivial_move", "total_file_size",
            "ldb_compaction_create"]


def boundary_obls(prefix):
    out = []
    # (mode, compaction level, files per level 0..6, tier)
    cfg = [(0, 1, (0, 1), "quick"), (0, 1, (0, 2), "quick"), (0, 1, (0, 3), "quick"), (0, 6, (0, 0, 0, 0, 0, 0, 3), "quick"),
           (0, 1, (0, 4), "thorough"),
           # 3 files: quick
           (1, 1, (0, 2, 1), "quick"), (1, 5, (0, 0, 0, 0, 0, 2, 1), "quick"), (1, 0, (1, 1), "quick"), (1, 0, (2, 1), "thorough"), (1, 4, (0, 0, 0, 0, 1, 1, 1), "quick"),
           (2, 1, (0, 2, 1), "quick"), (2, 4, (0, 0, 0, 0, 1, 1, 1), "quick"),
           (3, 1, (0, 2, 1), "quick"), (3, 0, (1, 1), "quick"), (3, 0, (2, 1), "thorough"),
           # 4+ files: thorough (measured 130-260 s CPU each)
           (1, 1, (0, 2, 1, 1), "thorough"), (1, 1, (0, 2, 2, 0), "thorough"), (1, 1, (0, 3, 1, 0), "thorough"), (1, 0, (2, 1, 1), "thorough"),
           (1, 5, (0, 0, 0, 0, 0, 2, 2), "thorough"), (1, 4, (0, 0, 0, 0, 2, 1, 1), "thorough"),
           (1, 1, (0, 3, 2, 1), "thorough"), (1, 1, (0, 2, 3, 2), "thorough"), (1, 0, (3, 2, 1), "thorough"),
           (2, 1, (0, 2, 1, 1), "thorough"), (2, 1, (0, 3, 1, 0), "thorough"), (2, 0, (2, 1, 1), "thorough"),
           (2, 5, (0, 0, 0, 0, 0, 2, 2), "thorough"), (2, 1, (0, 3, 2, 1), "thorough"),
           (3, 1, (0, 2, 1, 1), "thorough"), (3, 0, (2, 1, 1), "thorough"), (3, 5, (0, 0, 0, 0, 0, 2, 2), "thorough"),
           (3, 1, (0, 3, 2, 1), "thorough")]
    # scenario obligations: user keys of the bounds concrete, sequences/types/sizes symbolic
    #   S1: level 1 = [1..2] [3..4] [4..5] (key 4 straddles), level 2 = [1..3]: picking the first file expands inputs[0] over the
    #       second one, whose boundary file (the third) must follow (add_boundary_inputs on expanded0)
    #   S2: the same one level deeper with a grandparent [2..9]
    scen = [(2, 1, (0, 3, 1), "1,2,3,4,4,5,1,3", "S1", "quick"), (1, 1, (0, 3, 1), "1,2,3,4,4,5,1,3", "S1", "quick"),
            (3, 1, (0, 3, 1), "1,2,3,4,4,5,1,3", "S1", "quick"),
            (2, 4, (0, 0, 0, 0, 3, 1, 1), "1,2,3,4,4,5,1,3,2,9", "S2", "quick"),
            # S3: level 1 = [1..2], level 2 = [1..3] [3..5] (key 3 straddles in level+1): inputs[1] must pull its boundary file
            (2, 1, (0, 1, 2), "1,2,1,3,3,5", "S3", "quick")]
    for ent in [(m, c, t, None, "", tr) for (m, c, t, tr) in cfg] + scen:
        mode, cl, t, ukeys, stag, tier = ent
        t = tuple(t) + (0,) * (9 - len(t))
        ncl, n1, n2 = t[cl], t[cl + 1], t[cl + 2]
        mx = max(t)
        defs = dict(_levels(t[:7]), VP_MODE=mode, VP_CL=cl, VP_NCL1=n1, VP_NCL2=n2, VP_VEC_CAP=8)
        if ukeys:
            defs["VP_UKEYS"] = ukeys
        if stag == "S3":
            defs["VP_WIT_SKIP_TRIVIAL"] = 1
        out.append(Obl("%s.%s-C%d-%s%s" % (prefix, BD_MODES[mode], cl, _lname(t[:7]), "-" + stag if stag else ""), "vset/boundary.c",
                       real=VER_REAL, include_real=INC, kit=KIT, defs=defs, unwind=11,
                       unwindset={"memcmp.0": 2, "memcpy.0": 10, "vp_realloc_ptrs.0": 9,
                                  "ldb_version_get_overlapping_inputs.0": max((2 * t[0] + 1) * t[0] + 1, mx + 1) if cl == 0 else mx + 1,
                                  "ldb_add_boundary_inputs.0": mx + 1, "find_smallest_boundary_file.0": mx + 1,
                                  "find_largest_key.0": mx + 2, "total_file_size.0": mx + 2, "ldb_versions_get_range.0": 2 * mx + 2,
                                  "ldb_versions_get_range2.0": mx + 2, "ldb_versions_get_range2.1": mx + 2},
                       restrict_fp=CMP_FP, tier=tier, timeout=600 if tier == "quick" else 1800, flags=["--slice-formula"], functions=BD_FUNCS, object_bits=10,
                       desc={0: "add_boundary_inputs on a symbolic contiguous run of a level: given files kept, only boundary files added, result closed: "
                                "no file left behind holds older entries of a user key a selected file ends with",
                             1: "pick_compaction (size triggered, symbolic compact pointer)", 2: "pick_compaction (seek triggered, any file)",
                             3: "compact_range (begin/end independently NULL)"}[mode] +
                            ("" if mode == 0 else ": never-newer-below-older in level and level+1, level+1 overlap completeness, survivors outside the "
                                                  "inputs' hull, grandparents, trivial-move rule, compact pointer"),
                       bounds="compaction level %d, files per level %s (sizes 0..4000, max_file_size 100), %s, sequences 0..7"
                              % (cl, t[:7], ("user keys of the file bounds CONCRETE (%s: smallest,largest per file), one key straddling two files" % ukeys)
                                 if ukeys else "1-byte user keys 0..15 that may straddle adjacent files")))
    return out


AP_FUNCS = ["ldb_versions_apply", "builder_init", "builder_apply", "builder_save_to", "builder_maybe_add_file", "builder_clear",
            "ldb_versions_finalize", "ldb_versions_write_snapshot", "ldb_versions_append_version", "ldb_version_create",
            "ldb_version_destroy", "ldb_edit_set_log_number", "ldb_edit_set_prev_log_number", "ldb_edit_set_next_file",
            "ldb_edit_set_last_sequence", "ldb_edit_add_file", "ldb_filemeta_clone", "ldb_filemeta_ref", "ldb_filemeta_unref"]


def apply_obls(prefix):
    out = []
    cfg = [(1, 0, "quick"), (1, 1, "quick"), (1, 2, "quick"), (0, 0, "quick"), (0, 1, "quick"), (0, 2, "quick")]
    for first, shape, tier in cfg:
        name = "%s.versions-apply-%s-shape%d" % (prefix, "first" if first else "open", shape)
        out.append(Obl(name, "vset/apply.c",
                       real=["dbformat.c", "util/comparator.c", "util/buffer.c", "util/slice.c", "util/options.c", "util/rbt.c"],
                       include_real=["version_set.c", "version_edit.c", "util/vector.c"], kit=KIT,
                       defs={"VP_FIRST": first, "VP_SHAPE": shape, "VP_SLAB": 32, "VP_VEC_CAP": 4}, unwind=9,
                       unwindset={"memcmp.0": 10, "memcpy.0": 28, "strlen.0": 28, "vp_realloc_ptrs.0": 5},
                       tier=tier, timeout=600, functions=AP_FUNCS, object_bits=10,
                       desc="ldb_versions_apply ordering monitor (%s): edit completed with the set's counters; %sedit record, THEN sync%s with the mutex "
                            "released; nothing installed before; install + log numbers only on success; on failure nothing installed%s"
                            % ("first call" if first else "MANIFEST open", "new MANIFEST named by manifest_file_number, snapshot, THEN " if first else "",
                               ", THEN set_current_file" if first else "",
                               ", new MANIFEST closed+removed (never a NULL handle: F5), descriptor_log/file reset" if first else ", open MANIFEST kept"),
                       bounds="base shape %d (0: empty, 1: flush onto one file, 2: compaction delete+add), all 64-bit counters symbolic, every step "
                              "below (name, create, snapshot, append, sync, set-current) fails or not with any error code" % shape))
    return out


VL_FUNCS = ["ldb_versions_add_files", "ldb_version_unref", "ldb_version_ref", "ldb_version_destroy", "ldb_version_clear",
            "ldb_versions_append_version", "ldb_version_create", "ldb_version_init", "ldb_vector_push", "ldb_vector_clear"]
VL_OPS = {0: ("add-files", "ldb_versions_add_files: live == exactly the file numbers of every version in the list, every level 0..6"),
          1: ("ref-unref", "ldb_version_ref/unref of a symbolic list member: count +-1; last unref unlinks exactly that version, "
                           "unrefs each of its files once, list order kept; add_files afterwards == files of the remaining versions"),
          2: ("append", "ldb_versions_append_version: new version current at the tail with one reference; previous current loses one "
                        "(dropped with its files unref'd iff it was the last); add_files afterwards == files of the versions in the list")}


def versionlist_obls(prefix):
    out = []
    cfg = {0: (((0, 0), "quick"), ((1, 1), "quick"), ((1, 2), "quick"), ((2, 2), "quick"), ((3, 1), "quick"), ((3, 2), "thorough")),
           1: (((1, 2), "quick"), ((2, 2), "quick"), ((3, 1), "quick"), ((3, 2), "thorough")),
           2: (((0, 2), "quick"), ((1, 2), "quick"), ((2, 1), "quick"), ((2, 2), "quick"), ((3, 1), "thorough"))}
    for op in (0, 1, 2):
        nm, what = VL_OPS[op]
        for (k, fv), tier in cfg[op]:
            out.append(Obl("%s.versions-%s-K%d-F%d" % (prefix, nm, k, fv), "vset/versionlist.c",
                           real=["dbformat.c", "util/comparator.c", "util/buffer.c", "util/slice.c"], include_real=INC, kit=KIT,
                           defs={"VP_OP": op, "VP_K": k, "VP_FV": fv, "VP_NF": 3, "VP_VEC_CAP": 4}, unwind=9,
                           unwindset={"vp_realloc_ptrs.0": 5, "check_live.2": 17, "ldb_versions_add_files.0": fv + 1,
                                      "ldb_versions_add_files.2": k + 3, "ldb_version_clear.0": fv + 1},
                           tier=tier, timeout=400, functions=VL_FUNCS, desc=what,
                           bounds="%d versions x %d files (3 distinct file objects, may be shared), each file at a symbolic level 0..6, "
                                  "version reference counts 1..3, file numbers 1..15" % (k, fv)))
    return out


OBLIGATIONS = overlap_obls("e") + baselevel_obls("d") + boundary_obls("f") + apply_obls("d") + versionlist_obls("b")

# META fragments for the importing property modules (C01 / C14 / C02+C05+C17 / C13)
META_FRAGMENTS = {
    "C01": {
        "bounds": ["flush placement / overlap tests: <= 2 files in each of levels 0..3 (one configuration in level 6), 1-byte user keys 0..15, sequences 0..7, file sizes 0..4000 with max_file_size 100 (grandparent limit 1000 bytes)",
                   "is_base_level_for_key: compaction level 0..4, <= 3 files per level in levels level+2..6 (level 6 always included), 2-3 non-decreasing user keys",
                   "compaction input selection: <= 3 files in the compaction level, <= 2 in level+1, <= 1-2 in level+2 (levels 0/1, 1/2, 4/5/6, 5/6), one user key may straddle adjacent files; scenario obligations with concrete user keys of the bounds (S1-S3) and symbolic sequences/sizes"],
        "outside": ["file contents (entries between the bounds), table reads; more than 3 files per level; user keys longer than 1 byte; comparators other than bytewise",
                    "4+ file compaction configurations and 2-file level-0 compactions are thorough tier (130-600 s each)"],
        "models": ["harness/vset/ver.h: symbolic version (bounds only) under the C14 invariant; comparator calls of the #included version_set.c routed through one dispatch function (vp_compare)",
                   "kit/vp_d5_alloc.c: ldb_vector_t items = typed fixed-capacity pointer array grown in place; byte buffers = 16/32-byte slab grown in place",
                   "version_edit.c recorders (ldb_edit_init/clear/set_compact_pointer) in harness/vset/boundary.c"],
    },
    "C14": {
        "bounds": ["compaction input selection (pick_compaction size/seek triggered, compact_range, add_boundary_inputs, setup_other_inputs, is_trivial_move): see C01 bounds; asserts level+1 overlap completeness, survivors outside the inputs' internal-key hull, grandparent set, compact pointer",
                   "ldb_version_get_overlapping_inputs: level >= 1 exact set in order (<= 3 files, also level 6); level 0 == transitive closure (brute-force fixpoint) for <= 3 files, user keys 0..7",
                   "flush placement rule (pick_level_for_memtable_output) == reference rule, level <= 2"],
        "outside": ["outputs of the compaction itself (C14.c), builder merge (C14.a), MANIFEST replay (C14.e)"],
        "models": ["as C01"],
    },
    "C02": {
        "bounds": ["ldb_versions_apply: first call (new MANIFEST) and MANIFEST-open call; base version empty / one file + flush edit / two files + compaction edit (concrete keys and sizes); all five 64-bit counters and the edit's optional log numbers symbolic; every env/log/filename call below fails or not with any error code"],
        "outside": ["byte encoding of the records (C17.b: ldb_edit_export is abstracted to a one-byte record naming the exported edit, fields recorded at export time)",
                    "ldb_set_current_file internals (C02.e), env_unix (C02.f), log_writer framing (C15)", "crash points inside a step (the steps are atomic stubs)"],
        "models": ["harness/vset/apply.c monitoring stubs: ldb_desc_filename, ldb_truncfile_create, ldb_writer_create/add_record/destroy, ldb_wfile_sync/close/destroy, ldb_remove_file, ldb_set_current_file, ldb_mutex_lock/unlock (ghost mutex), ldb_log, ldb_strerror; abstract ldb_edit_export",
                   "real: version_set.c (apply, builder, finalize, write_snapshot, append_version), version_edit.c, rbt.c, vector.c, buffer.c, dbformat.c"],
    },
    "C13": {
        "bounds": ["version list of <= 3 versions (heap objects from the real ldb_version_create) x <= 2 files out of 3 distinct file objects (shared between versions), every file at a symbolic level 0..6, version reference counts 1..3, file counts = holders + 0/1"],
        "outside": ["more versions/files; interaction with compactions holding input_version (covered only as 'a reader holds a reference')"],
        "models": ["harness/vset/versionlist.c recorders: ldb_filemeta_ref/unref (count + call log, no free), rb_set64_put (bit set); file numbers concrete (3 + 2g: only handed on, never compared)",
                   "kit/vp_d5_alloc.c"],
    },
}
META = {}
