"""More obligations over the real version_set.c (harness/vset/*.c except get.c).

Factories (each returns a list of Obl; `prefix` = DESIGN sub-item letter of the importing property):
  overlap_obls(prefix)      C01.e / C14.d  find_file, some_file_overlaps_range, overlap_in_level,
                                           get_overlapping_inputs, pick_level_for_memtable_output
  baselevel_obls(prefix)    C01.d          ldb_compaction_is_base_level_for_key (stateful cursor)
  boundary_obls(prefix)     C01.f / C14.b  add_boundary_inputs, setup_other_inputs, pick_compaction,
                                           compact_range, is_trivial_move
  apply_obls(prefix)        C02.d / C05.b / C17  ldb_versions_apply ordering monitor
  versionlist_obls(prefix)  C13.b          append_version / ref / unref / add_files on a version list

`./check vset_more` runs all of them (development entry point).
"""
from vp import Obl

KIT = ["vp_nondet.c", "vp_mem.c", "vp_alloc.c"]
VER_REAL = ["dbformat.c", "util/comparator.c", "util/buffer.c", "util/slice.c", "util/options.c"]
INC = ["version_set.c", "util/vector.c"]

# comparator call sites reached by these harnesses (goto-instrument labels)
CMP_FP = ["ldb_find_file.function_pointer_call.1/ldb_ikc_compare",
          "ldb_ikc_compare.function_pointer_call.1/slice_compare"]


def _levels(t):
    return dict(("VP_N%d" % i, n) for i, n in enumerate(t) if n)


def _lname(t):
    return "-".join("L%dx%d" % (i, n) for i, n in enumerate(t) if n) or "empty"


def overlap_obls(prefix):
    out = []
    # find_file: level 1 with 0..3 files
    for n, tier in ((0, "quick"), (1, "quick"), (2, "quick"), (3, "quick"), (4, "thorough")):
        out.append(Obl("%s.find-file-N%d" % (prefix, n), "vset/overlap.c", real=VER_REAL, include_real=INC, kit=KIT,
                       defs={"VP_MODE": 0, "VP_LV": 1, "VP_N1": n}, unwind=9,
                       unwindset={"memcmp.0": 3, "ldb_find_file.0": 4},
                       restrict_fp=CMP_FP, tier=tier, timeout=300,
                       functions=["ldb_find_file", "ldb_ikc_compare"],
                       desc="find_file == first file whose largest internal key >= target (linear reference), sorted/disjoint level",
                       bounds="%d files, 1-byte user keys, sequences 0..7, both types" % n))
    return out


OBLIGATIONS = overlap_obls("e")
META = {}
