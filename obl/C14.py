from vp import Obl

OBLIGATIONS = []

VS_REAL = ["version_edit.c", "util/buffer.c", "util/slice.c", "util/rbt.c", "dbformat.c", "util/comparator.c"]
VS_KIT = ["vp_nondet.c", "vp_mem.c", "vp_alloc_c17.c"]
VS_FP = []


def builder_obl(b0, b1, b2, na, nd, tier="quick"):
    nb = b0 + b1 + b2
    return Obl("a.builder-B%d.%d.%d-A%d-D%d" % (b0, b1, b2, na, nd), "C14/builder.c",
               real=VS_REAL, include_real=["version_set.c", "util/vector.c"], kit=VS_KIT,
               defs={"VP_B0": b0, "VP_B1": b1, "VP_B2": b2, "VP_NA": na, "VP_ND": nd, "VP_SLAB": 16, "VP_VEC_CAP": 8},
               unwind=max(12, nb + na + 2), restrict_fp=VS_FP,
               timeout=900, tier=tier,
               functions=["builder_init", "builder_apply", "builder_save_to", "builder_maybe_add_file", "builder_clear",
                          "by_smallest_key", "file_set_compare", "ldb_ikc_compare", "ldb_edit_add_file",
                          "ldb_edit_remove_file", "ldb_rb_tree_put", "ldb_rb_set64_has", "ldb_vector_push"],
               desc="builder output per level == (base - deleted) + added, strictly sorted by (smallest, number); "
                    "disjoint additions keep levels >= 1 non-overlapping; allowed_seeks and reference counts",
               bounds="base %d/%d/%d files on levels 0/1/2, %d added files (symbolic level 0..2), %d deleted (level, number) pairs; "
                      "9-byte internal keys, all numbers/sizes/keys symbolic" % (b0, b1, b2, na, nd))


OBLIGATIONS.append(builder_obl(1, 2, 0, 1, 1))

META = {}
