from vp import Obl

OBLIGATIONS = []

VS_REAL = ["version_edit.c", "util/buffer.c", "util/slice.c", "util/rbt.c", "dbformat.c", "util/comparator.c"]
VS_KIT = ["vp_nondet.c", "vp_mem.c", "vp_alloc_c17.c"]
VS_FP = ["by_smallest_key.function_pointer_call.1/ldb_ikc_compare",
         "ldb_ikc_compare.function_pointer_call.1/slice_compare",
         "rb_node_clear.function_pointer_call.1/file_set_destruct,file_entry_destruct"]


def builder_obl(b0, b1, b2, na, nd, al, dl, tier="quick"):
    nb = b0 + b1 + b2
    return Obl("a.builder-B%d.%d.%d-A%d@%s-D%d@%s" % (b0, b1, b2, na, al, nd, dl), "C14/builder.c",
               real=VS_REAL, include_real=["version_set.c", "util/vector.c"], kit=VS_KIT,
               defs={"VP_B0": b0, "VP_B1": b1, "VP_B2": b2, "VP_NA": na, "VP_ND": nd, "VP_AL": int(al[::-1] or 0), "VP_DL": int(dl[::-1] or 0),
                     "VP_SLAB": 16, "VP_VEC_CAP": 8},
               unwind=max(12, nb + na + 2), restrict_fp=VS_FP,
               unwindset=dict([(l, max(na, nd) + 2) for l in (
                   "rb_node_clear", "rb_node_min.0", "rb_node_max.0", "rb_node_successor.0", "rb_node_successor.1",
                   "ldb_rb_tree_put.0", "ldb_rb_tree_get.0", "ldb_rb_tree_del.0", "rb_tree_insert_fixup.0",
                   "rb_tree_remove_fixup.0")]),
               timeout=900, tier=tier,
               functions=["builder_init", "builder_apply", "builder_save_to", "builder_maybe_add_file", "builder_clear",
                          "by_smallest_key", "file_set_compare", "ldb_ikc_compare", "ldb_edit_add_file",
                          "ldb_edit_remove_file", "ldb_rb_tree_put", "ldb_rb_set64_has", "ldb_vector_push"],
               desc="builder output per level == (base - deleted) + added, strictly sorted by (smallest, number); "
                    "disjoint additions keep levels >= 1 non-overlapping; allowed_seeks and reference counts",
               bounds="base %d/%d/%d files on levels 0/1/2, %d added files on levels [%s], %d deleted (level, number) pairs on levels [%s]; "
                      "9-byte internal keys, all numbers/sizes/keys symbolic" % (b0, b1, b2, na, al, nd, dl))


BUILDER_CONFIGS = [
    # (b0, b1, b2, na, nd, add levels, delete levels, tier)
    (0, 1, 0, 1, 1, "1", "1", "quick"),
    (1, 2, 0, 1, 1, "1", "1", "quick"),
    (1, 1, 1, 1, 1, "0", "0", "quick"),
    (0, 2, 1, 2, 1, "11", "1", "thorough"),
    (1, 2, 1, 2, 2, "12", "12", "thorough"),
    (2, 2, 0, 1, 2, "0", "01", "quick"),
    (1, 2, 2, 2, 2, "22", "21", "thorough"),
    (2, 2, 2, 2, 2, "11", "11", "thorough"),
]
for c in BUILDER_CONFIGS:
    OBLIGATIONS.append(builder_obl(*c[:7], tier=c[7]))

EDIT_REPLACE = ["ldb_buffer_varint32:vp_buffer_varint32", "ldb_buffer_varint64:vp_buffer_varint64",
                "ldb_buffer_export:vp_buffer_export"]


def replay_obl(b0, b1, b2, rot, tier="quick", l2level=2):
    nb = b0 + b1 + b2
    reccap = 30 + 14 + nb * 46
    return Obl("e.replay-B%d.%d.%d-R%d%s" % (b0, b1, b2, rot, "" if l2level == 2 else "-deep%d" % l2level), "C14/replay.c",
               real=VS_REAL, include_real=["version_set.c", "util/vector.c"], kit=VS_KIT + ["vp_buffer_c17.c"],
               defs={"VP_B0": b0, "VP_B1": b1, "VP_B2": b2, "VP_ROT": rot, "VP_RECCAP": reccap, "VP_L2LEVEL": l2level,
                     "VP_SLAB": reccap * 3 // 2 + 8, "VP_VEC_CAP": 8},
               replace_calls=EDIT_REPLACE, restrict_fp=[],
               flags=["--max-field-sensitivity-array-size", str(reccap * 3 // 2 + 9)],
               unwind=28,
               unwindset=dict([(l, nb + 2) for l in (
                   "rb_node_clear", "rb_node_min.0", "rb_node_max.0", "rb_node_successor.0", "rb_node_successor.1",
                   "ldb_rb_tree_put.0", "ldb_rb_tree_get.0", "ldb_rb_tree_del.0", "rb_tree_insert_fixup.0",
                   "rb_tree_remove_fixup.0")] +
                   [("ldb_writer_add_record.0", reccap + 1), ("ldb_edit_import.0", nb + 4)]),
               timeout=900, tier=tier,
               functions=["ldb_versions_write_snapshot", "ldb_edit_export", "ldb_edit_import", "builder_apply",
                          "builder_save_to", "ldb_edit_add_file", "ldb_edit_set_compact_pointer"],
               desc="write_snapshot -> export -> import -> builder on an empty version set reproduces every level's file list "
                    "(numbers, sizes, bounds, order) and the compaction pointer",
               bounds="%d/%d/%d files on levels 0/1/2, 9-byte symbolic keys, compaction pointer on level 1; "
                      "concrete representative numbers/sizes (varint lengths rotate with R=%d)" % (b0, b1, b2, rot))


OBLIGATIONS.append(replay_obl(1, 2, 1, 0))
# the third group of files on the deepest level (every per-level loop must reach level 6)
OBLIGATIONS.append(replay_obl(1, 0, 1, 2, l2level=6))
OBLIGATIONS.append(replay_obl(2, 1, 0, 3))
OBLIGATIONS.append(replay_obl(0, 2, 2, 6, tier="thorough"))
OBLIGATIONS.append(replay_obl(2, 2, 2, 1, tier="thorough"))

# c: compaction outputs are sorted, duplicate-free runs cut only between keys, reported with
# smallest/largest = first/last key added, at level+1 (real ldb_do_compaction_work)
from obl.dbimpl_compact import compaction_obls
_c = compaction_obls("c")
OBLIGATIONS += [o for o in _c if o.tier == "quick"][3:7] + [o for o in _c if o.tier != "quick"][2:5]

# b: compaction input selection keeps the level structure well-formed: level-0 inputs are the transitive closure of
# overlapping files, boundary files (one user key straddling files) follow their newer siblings, every level+1 file
# overlapping the inputs' hull is taken (real ldb_version_get_overlapping_inputs / add_boundary_inputs /
# ldb_versions_setup_other_inputs / pick_compaction / compact_range); d: flush placement (pick_level_for_memtable_output)
from obl.vset_more import boundary_obls, overlap_obls
_b = boundary_obls("b")
_keep = {"add-boundary-C1-L1x2", "add-boundary-C6-L6x3", "pick-size-C1-L1x2-L2x1", "pick-size-C5-L5x2-L6x1", "pick-seek-C1-L1x3-L2x1-S1", "pick-seek-C1-L1x1-L2x2-S3", "compact-range-C0-L0x1-L1x1"}
for _o in _b:
    if _o.tier == "quick" and _o.name.split(".", 1)[1] not in _keep:
        _o.tier = "thorough"
_ov = overlap_obls("d")
_keepo = {"overlapping-inputs-L0-N2", "overlapping-inputs-L0-N3", "overlapping-inputs-L2-N2", "overlapping-inputs-L6-N2", "pick-level-L0x2-L1x1-L3x1", "pick-level-L1x1-L2x1-L3x2"}
for _o in _ov:
    if _o.tier == "quick" and _o.name.split(".", 1)[1] not in _keepo:
        _o.tier = "thorough"
OBLIGATIONS += _b + _ov

META = {
    "level": "model_checking",
    "level_text": "Bounded model checking (CBMC) of lcdb's own version_set.c builder (builder_apply, builder_save_to, "
                  "reached by including the real file), version_edit.c and the snapshot writer: for every symbolic "
                  "base layout, edit and key bytes inside the stated sizes the produced version is compared with an "
                  "independently written set/ordering reference; counterexamples are replayed natively. Also: compaction input selection on the real ldb_version_get_overlapping_inputs / add_boundary_inputs / ldb_versions_setup_other_inputs / pick_compaction / compact_range (level-0 transitive closure, boundary files, level+1 hull, trivial move), flush placement (pick_level_for_memtable_output), compaction output bounds and cuts in ldb_do_compaction_work, and MANIFEST replay including a file on the deepest level.",
    "level_note": "Only sub-items a (builder merge) and e (MANIFEST replay) of the design are built; compaction input "
                  "selection (b), output bounds (c) and flush placement (d) are not. Trusted: CBMC's C semantics, the "
                  "kit models, the harness' reference internal-key order. Base versions are arbitrary layouts "
                  "satisfying the builder's own output invariant (sorted by smallest key and number, levels >= 1 "
                  "disjoint), not only layouts reached by real histories.",
    "bounds": [
        "builder: base version of <= 2 files per level on levels 0..2, edits adding <= 2 files and deleting <= 2 "
        "(level, number) pairs; levels of the edit entries concrete per query, deleted numbers symbolic (hit or miss); "
        "all file numbers, sizes and 9-byte internal keys (1 user byte + 8 byte tag) symbolic",
        "replay: <= 2 files per level on 3 levels, one compaction pointer, symbolic 9-byte keys, concrete "
        "representative file numbers / sizes of varint lengths 1..10",
    ],
    "outside": [
        "more than 2 files per level, more than 3 populated levels, user keys longer than one byte, custom comparators",
        "sequences of several edits applied to one builder (recovery applies many); counters (log number, next file, "
        "last sequence) in the replay",
        "compaction input selection, output file bounds, flush placement, close/reopen through the real file system",
    ],
    "models": [
        "vp_mem.c byte-loop mem*", "vp_nondet.c symbolic input sources",
        "vp_alloc_c17.c fixed-slab ldb_realloc, typed pointer slabs for vectors (vp_vector_inc.h includes the real util/vector.c)",
        "vp_buffer_c17.c buffer-append wrappers without pointer differences (replay only)",
        "function pointers restricted to ldb_ikc_compare / slice_compare / file_set_destruct, file_entry_destruct (checked by CBMC)",
        "ldb_writer_add_record stub capturing the snapshot record (replay)",
    ],
    "assumptions": [
        "file numbers are unique; a table's smallest key is not above its largest",
    ],
}
