from vp import Obl
from obl.dbimpl_common import write_obls

KITB = ["vp_nondet.c", "vp_mem.c", "vp_alloc.c"]
REALB = ["write_batch.c", "util/buffer.c", "util/slice.c"]
BFUNCS = ["ldb_batch_init", "ldb_batch_put", "ldb_batch_del", "ldb_batch_append", "ldb_batch_iterate",
          "ldb_batch_insert_into", "ldb_batch_set_sequence", "ldb_batch_sequence", "ldb_batch_count",
          "ldb_batch_set_count", "ldb_slice_export", "ldb_slice_slurp", "ldb_buffer_append", "ldb_buffer_push"]

OBLIGATIONS = write_obls("a")


def _b(name, defs, tier="quick"):
    ops = defs.get("VP_OPS", 2) + defs.get("VP_OPS2", 0)
    size = 12 + ops * (4 + defs.get("VP_KLEN", 1) + defs.get("VP_VLEN", 1)) + 4
    return Obl(name, "C04/batch.c", real=REALB, kit=KITB, defs=defs, unwind=size,
               unwindset={"ldb_realloc.0": 25}, tier=tier, timeout=600, functions=BFUNCS,
               desc="real write_batch.c: bytes == reference LevelDB batch layout, iterate/insert_into replay every operation once, in order, with consecutive sequences; append == concatenation; count mismatch refused",
               bounds="%d operations, key %d B, value %d B, symbolic bytes and sequence" % (ops, defs.get("VP_KLEN", 1), defs.get("VP_VLEN", 1)))


for ops, mask in ((0, 0), (1, 0), (1, 1), (2, 0), (2, 1), (2, 2), (3, 5)):
    OBLIGATIONS.append(_b("b.batch-roundtrip-ops%d-del%d" % (ops, mask), {"VP_MODE": 0, "VP_OPS": ops, "VP_DELMASK": mask}))
OBLIGATIONS.append(_b("b.batch-roundtrip-ops2-k0-v0", {"VP_MODE": 0, "VP_OPS": 2, "VP_DELMASK": 1, "VP_KLEN": 0, "VP_VLEN": 0}))
OBLIGATIONS.append(_b("b.batch-roundtrip-ops2-k3-v2", {"VP_MODE": 0, "VP_OPS": 2, "VP_DELMASK": 2, "VP_KLEN": 3, "VP_VLEN": 2}))
OBLIGATIONS.append(_b("b.batch-roundtrip-ops4-del6", {"VP_MODE": 0, "VP_OPS": 4, "VP_DELMASK": 6}, tier="thorough"))
for (o1, m1, o2, m2) in ((1, 0, 1, 0), (2, 1, 1, 1), (0, 0, 2, 2), (1, 1, 0, 0)):
    OBLIGATIONS.append(_b("b.batch-append-%d.%d+%d.%d" % (o1, m1, o2, m2),
                          {"VP_MODE": 1, "VP_OPS": o1, "VP_DELMASK": m1, "VP_OPS2": o2, "VP_DELMASK2": m2}))

META = {
    "level": "model_checking",
    "level_text": "Bounded model checking (CBMC) of the real ldb_write()/ldb_build_batch_group()/writer queue (db_impl.c #included, abstract batches with symbolic sizes, monitoring stubs for log, memtable, sync primitives) and of the real write_batch.c codec against an independent reference layout: a group is exactly one log record holding the members' updates in queue order, sequences are consecutive, nothing is published before the whole group is inserted, failed groups insert nothing.",
    "level_note": "Trusted: CBMC's semantics of the goto-cc translation; the environment model of other threads (act only while the mutex is released; <=3 other writers; <=2 waits; <=1 memtable switch); stubs for log writer, memtable and env listed in the evidence; the prose composition with C15 (a log record is returned whole or not at all) that turns 'one group = one record' into crash atomicity. No real thread interleaving is executed.",
    "bounds": ["ldb_write: <=2 writers queued ahead, <=3 arriving behind (quick: <=2 in total), symbolic batch sizes 12..2 MiB (both arms of the group byte cap), counts 0..1000, symbolic sync flags and I/O errors",
               "write_batch.c: <=4 operations per batch, keys 0..3 bytes, values 0..2 bytes, all byte values, all 64-bit sequences"],
    "outside": ["batches larger than 4 operations / long keys (codec loops are size-independent but not proved so)",
                "real thread schedules; crash images (C15 decides record-level atomicity of the log)"],
    "models": ["world.h ghost mutex/condvar with interference at every release", "abstract batch model in dbimpl/write.c",
               "vp_alloc.c (malloc never fails), vp_mem.c byte loops"],
    "design_ref": "DESIGN.md section 6 C04 (a, b, e)",
}
