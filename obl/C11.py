from obl.c11_parts import read_block_obls, who_verifies_obls
from obl.vset_common import get_obls

# a: block reads are accepted only with a matching checksum; d: table errors stop the lookup
OBLIGATIONS = read_block_obls("a") + who_verifies_obls("b") + get_obls("d", 0, ((1, 1, 0, 1, 2, 1), (0, 1, 1, 1, 2, 2)), table_err=1)

# e: an input-iterator error (e.g. a checksum mismatch found while reading a compaction input) fails the
# compaction, installs nothing and latches the background error (real ldb_do_compaction_work)
from obl.dbimpl_compact import compaction_obls
OBLIGATIONS += [o for o in compaction_obls("e") if o.tier == "quick" and "faults1" in o.name][:3]

META = {
    "level": "model_checking",
    "level_text": "Bounded model checking (CBMC) of the code-level contract behind corruption detection: the real ldb_read_block accepts a block with verification on only if the stored trailer equals mask(F(payload||type)) recomputed independently, turns short reads, read errors, unknown block types and absurd sizes into error statuses and returns exactly the payload bytes; the real ldb_version_get returns a table-layer error instead of falling through to older data. (The log-reader side - accepted physical record => checksum matches, drops reported - is decided under C15; decoder totality under C18.)",
    "level_note": "Trusted: CBMC semantics; the abstract streaming checksum F stands for CRC-32C (the real kernel is checked against a bitwise reference under C15.k), so the probabilistic part (a flip that preserves the CRC) is outside; Snappy is replaced by its contract here; which callers other than ldb_table_open pass verify_checksums/paranoid flags and whole-file byte-flip campaigns are not encoded.",
    "bounds": ["block payload 0..3 bytes quick (..9 thorough), every byte value, symbolic trailer/offset/options/short reads/errors", "version_get: <=2 files, one of them failing"],
    "outside": ["real CRC collisions", "who enables verification outside ldb_table_open (compaction input iterator, repair, recovery readers)", "two-level iterator status propagation (C07.d)", "multi-KiB files"],
    "models": ["kit/vp_cksum.c abstract checksum", "pread/Snappy contract stubs in harness/C11/read_block.c", "ldb_tables_get contract model"],
    "design_ref": "DESIGN.md section 6 C11",
}
