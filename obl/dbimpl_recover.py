"""Recovery/open path of the db_impl.c monitor family (harness/dbimpl/recover*.c, open.c).

The factories accept strict_logopen for compatibility; "a log that could not be opened is never
treated as recovered / removed" (finding F3, fixed in /repo) is always asserted."""
from vp import Obl

KIT = ["vp_nondet.c", "vp_mem.c"]
FLAGS = ["--slice-formula", "--max-field-sensitivity-array-size", "2000"]

LOG_FUNCS = ["ldb_recover_log_file", "ldb_write_level0_table", "report_corruption",
             "ldb_maybe_ignore_error", "ldb_stats_init", "ldb_stats_add"]


def _unwind(names, recs, tables, names2=2):
    """global bound covering the model loops of recover_world.h (pools, sets, 10-byte names)"""
    newtbl = names * recs + 1
    setcap = tables + newtbl + 1
    return max(11, setcap + 1, names + 2, names2 + 2, recs + 3)


def recover_log_obls(prefix, quick=(1, 2), thorough=(3,), strict_logopen=True, known=None):
    out = []
    for tier, recs in (("quick", quick), ("thorough", thorough)):
        for n in recs:
            defs = {"VP_RECS": n, "VP_NAMES": 1}
            name = "%s.recover-log-recs%d" % (prefix, n)
            out.append(Obl(name, "dbimpl/recover_log.c",
                           include_real=["db_impl.c"], kit=KIT, defs=defs,
                           unwind=_unwind(1, n, 1), unwindset={"ldb_recover_log_file.0": n + 2},
                           tier=tier, timeout=900, flags=FLAGS, functions=LOG_FUNCS, known=known,
                           desc="one real ldb_recover_log_file(): every record >= 12 B replayed once in file order, shorter ones reported and skipped, max_sequence = max(seq+count-1), memtable written out when over write_buffer_size and at the end (edit + save_manifest), reuse path: writer at file size, memtable kept, logfile_number; paranoid vs ignore; failures returned",
                           bounds="<=%d records with symbolic sizes/sequences/counts, corruption reports before any record and before EOF, symbolic options (paranoid_checks, reuse_logs, write_buffer_size), every env call may fail" % n))
    return out


REC_FUNCS = ["ldb_recover", "ldb_new_db", "compare_ascending", "ldb_user_comparator"] + LOG_FUNCS

# (names, tables, recs)
REC_QUICK = ((1, 1, 1), (2, 1, 1), (3, 2, 0))
REC_THOROUGH = ((3, 1, 1), (4, 2, 0), (5, 2, 0), (2, 1, 2))


def recover_obls(prefix, quick=REC_QUICK, thorough=REC_THOROUGH, strict_logopen=True, known=None, real_sort=False):
    """real_sort=True links the real util/array.c quicksort instead of the compare-exchange model (slow)."""
    out = []
    for tier, tuples in (("quick", quick), ("thorough", thorough)):
        for (names, tables, recs) in tuples:
            bits = 62 if names <= 3 else 16
            defs = {"VP_NAMES": names, "VP_TABLES": tables, "VP_RECS": recs, "VP_NUMBITS": bits}
            name = "%s.recover-names%d-tables%d-recs%d" % (prefix, names, tables, recs)
            if real_sort:
                defs["VP_REAL_SORT"] = 1
                name += "-realsort"
            uw = {"ldb_recover.0": names + 1, "ldb_recover.1": names + 1, "ldb_recover_log_file.0": recs + 2}
            if real_sort:
                uw.update({"ldb_qsort": max(names, 1), "ldb_partition.0": names + 1, "ldb_partition.1": names + 1,
                           "ldb_partition.2": names // 2 + 2})
            out.append(Obl(name, "dbimpl/recover.c", real=["util/array.c"] if real_sort else [],
                           include_real=["db_impl.c"], kit=KIT, defs=defs,
                           unwind=_unwind(names, recs, tables), unwindset=uw,
                           tier=tier, timeout=900 if tier == "quick" else 3000, flags=FLAGS, functions=REC_FUNCS, known=known,
                           desc="one real ldb_recover(): logs replayed == {n >= log_number or n == prev_log_number} in ascending order, each marked; missing table => CORRUPTION; last_sequence raised to the replayed maximum; nothing deleted/renamed/truncated; create_if_missing/error_if_exists => INVALID untouched; new db committed by CURRENT after MANIFEST sync; failures returned",
                           bounds="directory of %d arbitrary distinct names (any type, %d-bit numbers, foreign names), version with <=%d tables, <=%d records per log, symbolic counters and options, every env call may fail" % (names, bits, tables, recs)))
    return out


def array_sort_obls(prefix, quick=(0, 1, 2, 3), thorough=(4,)):
    out = []
    for tier, ns in (("quick", quick), ("thorough", thorough)):
        for n in ns:
            out.append(Obl("%s.array-sort-n%d" % (prefix, n), "dbimpl/array_sort.c",
                           real=["util/array.c"], kit=["vp_nondet.c"], defs={"VP_N": n},
                           unwind=n + 2, unwindset={"ldb_qsort": max(n, 1), "ldb_partition.0": n + 1, "ldb_partition.1": n + 1, "ldb_partition.2": n // 2 + 2},
                           tier=tier, timeout=600 if n <= 3 else 3000,
                           functions=["ldb_array_init", "ldb_array_push", "ldb_array_grow", "ldb_array_sort", "ldb_qsort", "ldb_partition", "ldb_swap", "ldb_array_clear"],
                           desc="real util/array.c quicksort with the ascending comparison: result ascending and a permutation of the input (contract used by dbimpl/recover.c for the log replay order)",
                           bounds="%d arbitrary 64-bit numbers" % n))
    return out


OPEN_FUNCS = ["ldb_open", "ldb_create", "ldb_sanitize_options", "table_cache_size", "ldb_destroy_internal",
              "ldb_remove_obsolete_files", "ldb_maybe_schedule_compaction", "ldb_queue_init"] + REC_FUNCS

# (names, tables, recs, names2)
OPEN_QUICK = ((1, 1, 1, 2), (2, 1, 0, 2))
OPEN_THOROUGH = ((2, 1, 1, 2), (3, 2, 0, 3))


def open_obls(prefix, quick=OPEN_QUICK, thorough=OPEN_THOROUGH, strict_logopen=True, known=None):
    out = []
    for tier, tuples in (("quick", quick), ("thorough", thorough)):
        for (names, tables, recs, names2) in tuples:
            defs = {"VP_NAMES": names, "VP_TABLES": tables, "VP_RECS": recs, "VP_NAMES2": names2}
            uw = {"ldb_recover.0": names + 1, "ldb_recover.1": names + 1, "ldb_recover_log_file.0": recs + 2,
                  "ldb_remove_obsolete_files.0": names2 + 1, "ldb_remove_obsolete_files.1": names2 + 1,
                  "ldb_destroy_internal.0": 2}
            out.append(Obl("%s.open-names%d-tables%d-recs%d-gc%d" % (prefix, names, tables, recs, names2), "dbimpl/open.c",
                           include_real=["db_impl.c"], kit=KIT, defs=defs, known=known,
                           unwind=_unwind(names, recs, tables, names2), unwindset=uw,
                           tier=tier, timeout=900, flags=FLAGS, functions=OPEN_FUNCS,
                           desc="one real ldb_open(): new log number allocated after recovery, log created, edit names the current log (prev_log 0) and carries the recovered tables, applied before anything is removed, compaction scheduled last; every failure returns the error with *dbptr NULL, lock released iff taken, everything closed",
                           bounds="directory of %d names at recovery and %d at garbage collection, version with <=%d tables, <=%d records per log, symbolic options, every env call may fail" % (names, names2, tables, recs)))
    return out


def filenum_obls(prefix):
    return [Obl("%s.file-number-allocator" % prefix, "dbimpl/filenum.c", real=["version_set.c"], kit=["vp_nondet.c"],
                unwind=2, tier="quick", timeout=300,
                functions=["ldb_versions_new_file_number", "ldb_versions_reuse_file_number", "ldb_versions_mark_file_number"],
                desc="real version_set.c file-number allocator: strictly increasing, reuse undoes only the latest allocation, mark_file_number makes later numbers exceed the marked one (the contract the recovery harnesses model)",
                bounds="all 62-bit counter values and marked numbers")]
