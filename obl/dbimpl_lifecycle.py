"""db_impl.c monitor family, lifecycle operations (property C20):

    destroy_obls(prefix)      harness/dbimpl/destroy.c  the real ldb_destroy
    backup_obls(prefix)       harness/dbimpl/backup.c   the real ldb_backup / ldb_copy / ldb_backup_inner
    cmpmismatch_obls(prefix)  harness/vset/comparator_mismatch.c  the real ldb_versions_recover
"""
from vp import Obl

KIT = ["vp_nondet.c", "vp_mem.c", "vp_d9_names.c"]
FLAGS = ["--slice-formula", "--max-field-sensitivity-array-size", "2000"]

DESTROY_FUNCS = ["ldb_destroy"]
DESTROY_DESC = ("real ldb_destroy() over a symbolic directory: ldb_remove_file only for listed names ldb_parse_filename accepts "
                "(never a foreign name), each own file except LOCK exactly once and with the LOCK held, LOCK file removed once "
                "after unlock and after everything else, directory removal attempted last and its failure ignored; lock refused "
                "=> nothing removed, error returned; missing directory => OK with no lock and no removal; lost/ emptied (own "
                "names only) iff it has no CURRENT; OK iff every removal succeeded")


def _destroy(prefix, n, sub, tier="quick", timeout=300):
    return Obl("%s.destroy-n%d-lost%d" % (prefix, n, sub), "dbimpl/destroy.c",
               include_real=["db_impl.c"], kit=KIT, defs={"VP_N": n, "VP_SUB": sub},
               unwind=max(n, sub, 13) + 2, unwindset={"ldb_destroy.0": n + 1, "ldb_destroy.1": sub + 1, "strlen.0": 4},
               tier=tier, timeout=timeout, flags=FLAGS, sat="cadical", functions=DESTROY_FUNCS, desc=DESTROY_DESC,
               bounds="<=%d entries in <db> and <=%d in <db>/lost, each an own name of any type (64-bit number, either spelling) or a "
                      "foreign name; listing of either directory may fail (ENOENT or any error); lock may be refused with any error; "
                      "every unlink/rmdir/unlock returns a symbolic status; any path may be too long to build" % (n, sub))


def destroy_obls(prefix):
    return [_destroy(prefix, 0, 0), _destroy(prefix, 2, 1), _destroy(prefix, 5, 2),
            _destroy(prefix, 7, 3, tier="thorough", timeout=1200)]


BACKUP_FUNCS = ["ldb_backup", "ldb_copy", "ldb_backup_inner"]
BACKUP_DESC = {
    0: "real ldb_backup() + ldb_backup_inner(): waits on background_work_finished_signal exactly while a compaction is scheduled, "
       "takes the live set under the mutex with nothing scheduled and neither releases nor waits until the copy is done, latched "
       "bg_error returned untouched, mutex released once at the end; ",
    1: "real ldb_copy() + ldb_backup_inner(live=NULL): source without CURRENT => ENOENT, source's LOCK taken (refused => nothing "
       "touched), held during the copy, released on every path; ",
}
INNER_DESC = ("<bak> created first (existing directory refused and left untouched), <bak>/LOCK taken before the source is read and "
              "released+removed on every path; live tables (ldb_copy: all) hard-linked, other tables skipped, log/MANIFEST/CURRENT "
              "copied, temp/LOCK/foreign skipped, info log only for ldb_copy, same name <db>/x -> <bak>/x; source receives no "
              "unlink/rename/write; first failure stops the copy, every file created in <bak> (also partial) removed, <bak> removed "
              "last, first error returned; success: nothing removed but LOCK, <bak> synced last")


def _backup(prefix, mode, n, live=2, waits=2, strict=0, tier="quick", timeout=600, known=None):
    name = "%s.%s-n%d-live%d%s" % (prefix, "copy" if mode else "backup", n, live, "-strict" if strict else "")
    return Obl(name, "dbimpl/backup.c", include_real=["db_impl.c"], kit=KIT,
               defs={"VP_MODE": mode, "VP_N": n, "VP_LIVE": live, "VP_WAITS": waits, "VP_STRICT": strict},
               unwind=max(n, live, 13) + 2,
               unwindset={"ldb_backup_inner.0": n + 1, "ldb_backup_inner.1": n + 2, "ldb_backup.0": waits + 1, "strlen.0": 4},
               tier=tier, timeout=timeout, flags=FLAGS, sat="cadical", functions=BACKUP_FUNCS, known=known,
               desc=BACKUP_DESC[mode] + INNER_DESC,
               bounds="source directory of <=%d entries (own name of any type, 64-bit number, either spelling, or foreign), <=%d live table "
                      "numbers (64 bit), <=%d waits with the background thread rescheduling/latching errors, every env call "
                      "(mkdir, lock, both listings, every copy/link incl. partial files, unlink, rmdir, unlock, dir sync) returns a "
                      "symbolic status, any path may be too long to build" % (n, live, waits))


def backup_obls(prefix):
    return [_backup(prefix, 0, 2), _backup(prefix, 0, 4), _backup(prefix, 1, 2), _backup(prefix, 1, 4),
            _backup(prefix, 0, 5, live=3, tier="thorough", timeout=1800),
            _backup(prefix, 1, 5, live=3, tier="thorough", timeout=1800)]


def backup_strict_obls(prefix):
    """Fail on the pinned tree (litter after a failed lock / failed final sync); not part of C20's obligations."""
    return [_backup(prefix, 0, 2, strict=1)]


CMP_REAL = ["version_edit.c", "util/buffer.c", "util/slice.c", "util/rbt.c", "dbformat.c", "util/strutil.c", "util/options.c",
            "util/comparator.c"]
CMP_KIT = ["vp_nondet.c", "vp_mem.c", "vp_alloc_c17.c"]
CMP_FUNCS = ["ldb_versions_recover", "read_current_filename", "builder_init", "builder_apply", "builder_save_to", "builder_clear",
             "ldb_versions_finalize", "ldb_versions_append_version", "ldb_versions_reuse_manifest", "ldb_versions_create",
             "ldb_edit_import", "ldb_buffer_slurp", "ldb_slice_equal", "ldb_string"]


def _cmpmm(prefix, recs, cmpmask, cn, en, tier="quick", timeout=300):
    return Obl("%s.comparator-mismatch-recs%d-mask%d-cn%d-en%d" % (prefix, recs, cmpmask, cn, en), "vset/comparator_mismatch.c",
               real=CMP_REAL, include_real=["version_set.c", "util/vector.c"], kit=CMP_KIT,
               defs={"VP_RECS": recs, "VP_CMP": cmpmask, "VP_CN": cn, "VP_EN": en, "VP_SLAB": 64, "VP_VEC_CAP": 4},
               unwind=max(cn, en, 8) + 3,
               unwindset={"ldb_versions_recover.0": recs + 2, "ldb_edit_import.0": 7},
               tier=tier, timeout=timeout, flags=["--slice-formula", "--max-field-sensitivity-array-size", "2000"],
               functions=CMP_FUNCS,
               desc="real ldb_versions_recover() + real ldb_edit_import() on standard MANIFEST records with a symbolic comparator name: "
                    "name != handle's comparator name (length or any byte) => LDB_INVALID with no remove/rename/truncate/append/write/"
                    "CURRENT switch issued up to the return, no record read past it, version set untouched, no MANIFEST rewrite "
                    "requested; equal name (or none recorded) => recovery proceeds, counters and version installed, MANIFEST opened "
                    "for append only when reused",
               bounds="%d MANIFEST record(s), comparator name in record(s) mask %d, handle name %d symbolic bytes, stored name %d "
                      "symbolic bytes, CURRENT read / MANIFEST open / size / append may fail, reuse_logs symbolic" % (recs, cmpmask, cn, en))


def cmpmismatch_obls(prefix):
    return [_cmpmm(prefix, 1, 1, 3, 3), _cmpmm(prefix, 1, 1, 3, 2), _cmpmm(prefix, 1, 1, 2, 3), _cmpmm(prefix, 1, 0, 3, 3),
            _cmpmm(prefix, 2, 3, 2, 2), _cmpmm(prefix, 2, 2, 3, 4),
            _cmpmm(prefix, 1, 1, 26, 26, tier="thorough", timeout=900), _cmpmm(prefix, 2, 3, 26, 25, tier="thorough", timeout=900)]
