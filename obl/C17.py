from vp import Obl

OBLIGATIONS = []
for mode, nm in ((0, "varint32-all-values"), (1, "varint64-all-values"), (3, "fixed-all-values")):
    OBLIGATIONS.append(Obl("a.%s" % nm, "C17/varint.c", kit=["vp_nondet.c", "vp_mem.c"],
                           defs={"VP_MODE": mode}, unwind=12,
                           functions=["ldb_varint32_write", "ldb_varint32_read", "ldb_varint32_size",
                                      "ldb_varint64_write", "ldb_varint64_read", "ldb_varint64_size",
                                      "ldb_fixed32_write", "ldb_fixed32_read", "ldb_fixed64_write", "ldb_fixed64_read"],
                           include_real=["util/coding.h"],
                           desc="write == LevelDB reference layout, size fn, read(write(x)) == x for every x"))
for n in range(0, 12):
    OBLIGATIONS.append(Obl("a.varint-read-arbitrary-N%d" % n, "C17/varint.c", kit=["vp_nondet.c", "vp_mem.c"],
                           defs={"VP_MODE": 2, "VP_N": n}, unwind=13, include_real=["util/coding.h"],
                           functions=["ldb_varint32_read", "ldb_varint64_read"],
                           desc="readers on arbitrary bytes agree with reference decoder (accept, value, consumed)"))
META = {
    "level": "model_checking",
    "level_text": "Bounded model checking (CBMC) of lcdb's own coding.h / version_edit.c / version_set.c code: encode/decode round trips and agreement with an independently written LevelDB-format reference for every value of the symbolic fields inside the stated sizes; counterexamples are replayed natively.",
    "level_note": "Trusted: CBMC's C semantics of the goto-cc translation, the kit models (allocator never fails, byte-loop mem*), the harness' reference encoders/decoders. Sizes (files per edit, key lengths) are bounded and listed in the evidence; real MANIFEST histories are not executed.",
    "bounds": ["varint32/64 and fixed32/64: all values", "varint readers: arbitrary inputs of every length 0..11"],
    "outside": ["edit sequences produced by real histories", "thousands of files per edit"],
    "models": ["vp_mem.c byte-loop memcpy/memcmp/memset", "vp_nondet.c symbolic input sources"],
}
