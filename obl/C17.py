from vp import Obl

OBLIGATIONS = []
for mode, nm in ((0, "varint32-all-values"), (1, "varint64-all-values"), (3, "fixed-all-values")):
    OBLIGATIONS.append(Obl("a.%s" % nm, "C17/varint.c", kit=["vp_nondet.c", "vp_mem.c"],
                           defs={"VP_MODE": mode}, unwind=12,
                           functions=["ldb_varint32_write", "ldb_varint32_read", "ldb_varint32_size",
                                      "ldb_varint64_write", "ldb_varint64_read", "ldb_varint64_size",
                                      "ldb_fixed32_write", "ldb_fixed32_read", "ldb_fixed64_write", "ldb_fixed64_read"],
                           include_real=["util/coding.h"],
                           desc="write == LevelDB reference layout, size fn, read(write(x)) == x for every x"))
for n in range(0, 12):
    OBLIGATIONS.append(Obl("a.varint-read-arbitrary-N%d" % n, "C17/varint.c", kit=["vp_nondet.c", "vp_mem.c"],
                           defs={"VP_MODE": 2, "VP_N": n}, unwind=13, include_real=["util/coding.h"],
                           functions=["ldb_varint32_read", "ldb_varint64_read"],
                           desc="readers on arbitrary bytes agree with reference decoder (accept, value, consumed)"))

# ---- b/c: version_edit.c export/import vs the MANIFEST-record reference ----
EDIT_REAL = ["version_edit.c", "util/buffer.c", "util/slice.c", "util/rbt.c", "dbformat.c"]
EDIT_KIT = ["vp_nondet.c", "vp_mem.c", "vp_alloc_slab.c"]
EDIT_FUNCS = ["ldb_edit_export", "ldb_edit_import", "ldb_edit_add_file", "ldb_edit_remove_file",
              "ldb_edit_set_compact_pointer", "ldb_edit_clear", "ldb_level_slurp",
              "ldb_buffer_varint32", "ldb_buffer_varint64", "ldb_buffer_export", "ldb_buffer_slurp",
              "ldb_slice_slurp", "ldb_rb_tree_put", "ldb_rb_iter_next", "ldb_vector_push"]


def edit_obl(mode, nf, nd, nc, ks, kl, cn, rot, tier="quick"):
    """mode 0: export == reference encoder; 2: import of the reference bytes == original;
    3: reference decoder self-check; 4: direct export -> import round trip (tiny sizes)."""
    nm = {0: "export", 2: "import", 3: "refdec", 4: "roundtrip"}[mode]
    nfields = 5 + nf + nd + nc
    outcap = (2 + cn) + 4 * 11 + nc * (3 + kl) + nd * 12 + nf * (24 + ks + kl)
    slab = max(outcap * 3 // 2 + 8, 32)
    what = {0: "ldb_edit_export bytes == reference MANIFEST-record encoder (tags 1,2,9,3,4,5,6,7 in order); built edit holds the fields",
            2: "ldb_edit_import of the standard record (== lcdb's export bytes by the export obligation) recovers every field",
            3: "independent reference decoder accepts the exported/standard bytes and recovers every field",
            4: "export -> reference decoder and export -> ldb_edit_import recover every field, in one query"}[mode]
    return Obl("b.edit-%s-F%d-D%d-C%d-K%d.%d-N%d-R%d" % (nm, nf, nd, nc, ks, kl, cn, rot), "C17/edit.c",
               real=EDIT_REAL, kit=EDIT_KIT, include_real=["util/vector.c"],
               defs={"VP_MODE": mode, "VP_NF": nf, "VP_ND": nd, "VP_NC": nc, "VP_KS": ks, "VP_KL": kl, "VP_CN": cn,
                     "VP_ROT": rot, "VP_SLAB": slab, "VP_OUTCAP": outcap, "VP_VEC_CAP": 4},
               unwind=12,
               unwindset={"vp_expect_bytes.0": outcap + 1, "ref_decode.0": nfields + 2,
                          "ldb_edit_import.0": nfields + 2},
               timeout=600, tier=tier, functions=EDIT_FUNCS, desc=what,
               bounds="%d new files, %d deleted files, %d compact pointers, keys %d/%d bytes, comparator name %d bytes; "
                      "scalar fields symbolic present/absent, levels 0..6; every 64-bit number symbolic inside the varint "
                      "length class 1+(3*field+%d)%%10 (all classes covered over R0..R9)" % (nf, nd, nc, ks, kl, cn, rot))


for mode in (0, 2, 3):
    OBLIGATIONS.append(edit_obl(mode, 0, 0, 0, 8, 8, 2, 0))
    OBLIGATIONS.append(edit_obl(mode, 1, 1, 1, 8, 9, 3, 1))
    OBLIGATIONS.append(edit_obl(mode, 2, 2, 1, 9, 10, 3, 2))
OBLIGATIONS.append(edit_obl(4, 0, 1, 0, 8, 8, 1, 3))

for x in (1, 2, 4):
    OBLIGATIONS.append(Obl("x1-%d" % x, "C17/tmp/x1.c", real=EDIT_REAL, kit=EDIT_KIT, include_real=["util/vector.c"], defs={"VP_X": x, "VP_SLAB": 96}, unwind=12, tier="thorough"))
META = {
    "level": "model_checking",
    "level_text": "Bounded model checking (CBMC) of lcdb's own coding.h / version_edit.c / version_set.c code: encode/decode round trips and agreement with an independently written LevelDB-format reference for every value of the symbolic fields inside the stated sizes; counterexamples are replayed natively.",
    "level_note": "Trusted: CBMC's C semantics of the goto-cc translation, the kit models (allocator never fails, byte-loop mem*), the harness' reference encoders/decoders. Sizes (files per edit, key lengths) are bounded and listed in the evidence; real MANIFEST histories are not executed.",
    "bounds": ["varint32/64 and fixed32/64: all values", "varint readers: arbitrary inputs of every length 0..11"],
    "outside": ["edit sequences produced by real histories", "thousands of files per edit"],
    "models": ["vp_mem.c byte-loop memcpy/memcmp/memset", "vp_nondet.c symbolic input sources"],
}
