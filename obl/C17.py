from vp import Obl

OBLIGATIONS = []
for mode, nm in ((0, "varint32-all-values"), (1, "varint64-all-values"), (3, "fixed-all-values")):
    OBLIGATIONS.append(Obl("a.%s" % nm, "C17/varint.c", kit=["vp_nondet.c", "vp_mem.c"],
                           defs={"VP_MODE": mode}, unwind=12,
                           functions=["ldb_varint32_write", "ldb_varint32_read", "ldb_varint32_size",
                                      "ldb_varint64_write", "ldb_varint64_read", "ldb_varint64_size",
                                      "ldb_fixed32_write", "ldb_fixed32_read", "ldb_fixed64_write", "ldb_fixed64_read"],
                           include_real=["util/coding.h"],
                           desc="write == LevelDB reference layout, size fn, read(write(x)) == x for every x"))
for n in range(0, 12):
    OBLIGATIONS.append(Obl("a.varint-read-arbitrary-N%d" % n, "C17/varint.c", kit=["vp_nondet.c", "vp_mem.c"],
                           defs={"VP_MODE": 2, "VP_N": n}, unwind=13, include_real=["util/coding.h"],
                           functions=["ldb_varint32_read", "ldb_varint64_read"],
                           desc="readers on arbitrary bytes agree with reference decoder (accept, value, consumed)"))

# ---- b/c: version_edit.c export/import vs the MANIFEST-record reference ----
EDIT_REAL = ["version_edit.c", "util/buffer.c", "util/slice.c", "util/rbt.c", "dbformat.c"]
EDIT_KIT = ["vp_nondet.c", "vp_mem.c", "vp_alloc_c17.c", "vp_buffer_c17.c"]
EDIT_REPLACE = ["ldb_buffer_varint32:vp_buffer_varint32", "ldb_buffer_varint64:vp_buffer_varint64",
                "ldb_buffer_export:vp_buffer_export"]
EDIT_FUNCS = ["ldb_edit_export", "ldb_edit_import", "ldb_edit_add_file", "ldb_edit_remove_file",
              "ldb_edit_set_compact_pointer", "ldb_edit_clear", "ldb_level_slurp",
              "ldb_buffer_varint32", "ldb_buffer_varint64", "ldb_buffer_export", "ldb_buffer_slurp",
              "ldb_slice_slurp", "ldb_rb_tree_put", "ldb_rb_iter_next", "ldb_vector_push"]


def edit_obl(mode, nf, nd, nc, ks, kl, cn, rot, mask=31, focus=0, symp=0, tier="quick"):
    """mode 0: export == reference encoder; 2: import of the reference bytes == original;
    3: reference decoder self-check; 4: direct export -> import round trip (tiny sizes)."""
    nm = {0: "export", 2: "import", 3: "refdec", 4: "roundtrip"}[mode]
    if mode != 0:
        symp = 0    # a symbolic presence flag makes the tag bytes symbolic: decoders then fan out over all 8 tags
    nfields = bin(mask | symp).count("1") + nf + nd + nc
    outcap = (2 + cn) + 4 * 11 + nc * (3 + kl) + nd * 12 + nf * (24 + ks + kl)
    slab = max(outcap * 3 // 2 + 8, 32)
    what = {0: "ldb_edit_export bytes == reference MANIFEST-record encoder (tags 1,2,9,3,4,5,6,7 in order); built edit holds the fields",
            2: "ldb_edit_import of the standard record (== lcdb's export bytes by the export obligation) recovers every field",
            3: "independent reference decoder accepts the exported/standard bytes and recovers every field",
            4: "export -> reference decoder and export -> ldb_edit_import recover every field, in one query"}[mode]
    defs = {"VP_MODE": mode, "VP_NF": nf, "VP_ND": nd, "VP_NC": nc, "VP_KS": ks, "VP_KL": kl, "VP_CN": cn,
            "VP_ROT": rot, "VP_SLAB": slab, "VP_OUTCAP": outcap, "VP_VEC_CAP": 4}
    defs.update({"VP_MASK": mask, "VP_FOCUS": focus, "VP_SYMP": symp})
    return Obl("b.edit-%s-F%d-D%d-C%d-K%d.%d-N%d-R%d-M%d.%d-X%d" % (nm, nf, nd, nc, ks, kl, cn, rot, mask, symp, focus), "C17/edit.c",
               real=EDIT_REAL, kit=EDIT_KIT, include_real=["util/vector.c"],
               defs=defs, replace_calls=EDIT_REPLACE,
               flags=["--max-field-sensitivity-array-size", str(max(slab, outcap) + 1)],
               unwind=12 + (cn + 1 if cn > 10 else 0),
               unwindset=dict([("vp_expect_bytes.0", outcap + 1),
                               ("ref_put_byte.0", 9 * bin(focus & 0x3ff).count("1") + 4 * bin(focus >> 10).count("1") + 2),
                               ("ref_decode.0", nfields + 1), ("ldb_edit_import.0", nfields + 1),
                               # containers: at most nc / nd / nf elements (+1 exit test, +1 spare)
                               ("ldb_edit_clear.0", nc + 2), ("ldb_edit_clear.1", nf + 2),
                               ("check_edit.0", nc + 2), ("check_edit.1", nf + 2), ("check_edit.2", nd + 2),
                               ("ref_edit_equal.0", nc + 2), ("ref_edit_equal.1", nd + 2), ("ref_edit_equal.2", nf + 2),
                               ("ldb_edit_export.0", nc + 2), ("ldb_edit_export.1", nd + 2), ("ldb_edit_export.2", nf + 2),
                               ("ref_encode.0", nc + 2), ("ref_encode.1", nd + 2), ("ref_encode.2", nf + 2)] +
                              [("ref_canon_del.%d" % i, nd + 2) for i in range(5)] +
                              [(l, nd + 2) for l in ("rb_node_min.0", "rb_node_successor.0", "rb_node_successor.1",
                                                     "ldb_rb_tree_put.0", "rb_tree_insert_fixup.0", "rb_node_clear")]),
               timeout=600, tier=tier, functions=EDIT_FUNCS, desc=what,
               bounds="%d new files, %d deleted files, %d compact pointers, keys %d/%d bytes, comparator name %d bytes; "
                      "scalar fields symbolic present/absent, levels 0..6; every 64-bit number symbolic inside the varint "
                      "length class 1+(3*field+%d)%%10 (all classes covered over R0..R9)" % (nf, nd, nc, ks, kl, cn, rot))


# field bits for focus=...: 0 log, 1 prev, 2 next, 3 seq, 4..5 deleted numbers, 6/7 8/9 new-file number/size,
# 10 compact-pointer level, 11..12 deleted levels, 13..14 new-file levels
EDIT_CONFIGS = [
    # (nf, nd, nc, ks, kl, cn, rot, mask, focus, symp, cnsym)
    # The focused (fully symbolic) field sits in the last field of the record, in lcdb's own emission
    # order, so that the bytes in front of it stay at concrete offsets.
    # scalars: each one focused, with symbolic presence; concrete presence patterns; symbolic comparator bytes
    (0, 0, 0, 8, 8, 2, 0, 3, 1 << 0, 1 << 1, 0),
    (0, 0, 0, 8, 8, 3, 1, 7, 1 << 1, 1 << 2, 0),
    (0, 0, 0, 8, 8, 1, 2, 15, 1 << 2, 1 << 3, 0),
    (0, 0, 0, 8, 8, 2, 3, 31, 1 << 3, 1 << 4, 0),
    (0, 0, 0, 8, 8, 3, 4, 1, 0, 1, 1),
    (0, 0, 0, 8, 8, 0, 5, 0, 0, 0, 0),
    (0, 0, 0, 8, 8, 4, 6, 21, 0, 0, 0),
    (0, 0, 0, 8, 8, 2, 7, 10, 0, 0, 0),
    (0, 0, 0, 8, 8, 26, 8, 31, 0, 0, 0),
    # deleted files
    (0, 1, 0, 8, 8, 0, 0, 0, (1 << 4) | (1 << 11), 0, 0),
    (0, 2, 0, 8, 8, 0, 3, 0, 1 << 12, 0, 0),
    (0, 2, 0, 8, 8, 0, 5, 2, 0, 0, 0),
    # compact pointer
    (0, 0, 1, 8, 8, 0, 1, 0, 1 << 10, 0, 0),
    (0, 0, 1, 8, 9, 0, 2, 0, 1 << 10, 0, 0),
    (0, 0, 1, 8, 10, 0, 4, 16, 1 << 10, 0, 0),
    # new files
    (1, 0, 0, 8, 9, 0, 0, 0, 1 << 6, 0, 0),
    (1, 0, 0, 9, 10, 0, 5, 0, 1 << 7, 0, 0),
    (1, 0, 0, 10, 8, 0, 7, 0, 1 << 13, 0, 0),
    (2, 0, 0, 8, 9, 0, 9, 0, (1 << 8) | (1 << 14), 0, 0),
    # everything together: concrete numbers of different length classes, or the last number focused
    (2, 2, 1, 9, 10, 3, 0, 31, 0, 0, 0),
    (2, 2, 1, 8, 9, 3, 4, 31, 0, 0, 0),
    (2, 2, 1, 10, 8, 3, 8, 29, 1 << 9, 0, 0),
    (1, 1, 1, 8, 8, 2, 6, 31, 1 << 7, 0, 0),
]


# Decoder-side queries (import / reference decoder).  A symbolic-length field makes the record length
# symbolic, and from then on CBMC's executor cannot resolve the tag switch of any later loop iteration, so
# focused fields are only used in records of one or two fields; longer records use concrete numbers.
DECODE_CONFIGS = [
    (0, 0, 0, 8, 8, 0, 0, 2, 1 << 0, 0, 0),
    (0, 0, 0, 8, 8, 0, 1, 4, 1 << 1, 0, 0),
    (0, 0, 0, 8, 8, 0, 2, 8, 1 << 2, 0, 0),
    (0, 0, 0, 8, 8, 0, 3, 16, 1 << 3, 0, 0),
    (0, 0, 0, 8, 8, 3, 4, 1, 0, 0, 1),
    (0, 0, 0, 8, 8, 0, 5, 0, 0, 0, 0),
    (0, 0, 0, 8, 8, 4, 6, 21, 0, 0, 0),
    (0, 0, 0, 8, 8, 2, 7, 10, 0, 0, 0),
    (0, 0, 0, 8, 8, 26, 8, 31, 0, 0, 0),
    (0, 1, 0, 8, 8, 0, 0, 0, (1 << 4) | (1 << 11), 0, 0),
    (0, 2, 0, 8, 8, 0, 3, 0, 0, 0, 0),
    (0, 2, 0, 8, 8, 0, 5, 2, 0, 0, 0),
    (0, 0, 1, 8, 8, 0, 1, 0, 1 << 10, 0, 0),
    (0, 0, 1, 8, 9, 0, 2, 0, 1 << 10, 0, 0),
    (0, 0, 1, 8, 10, 0, 4, 0, 1 << 10, 0, 0),
    (1, 0, 0, 8, 9, 0, 0, 0, 1 << 6, 0, 0),
    (1, 0, 0, 9, 10, 0, 5, 0, 1 << 7, 0, 0),
    (1, 0, 0, 10, 8, 0, 7, 0, 1 << 13, 0, 0),
    (2, 0, 0, 8, 9, 0, 9, 0, 1 << 9, 0, 0),
    (2, 2, 1, 9, 10, 3, 0, 31, 0, 0, 0),
    (2, 2, 1, 8, 9, 3, 4, 31, 0, 0, 0),
    (2, 2, 1, 10, 8, 3, 8, 29, 0, 0, 0),
    (1, 1, 1, 8, 8, 2, 6, 31, 0, 0, 0),
]


def edit_cfg(mode, c, tier="quick"):
    o = edit_obl(mode, c[0], c[1], c[2], c[3], c[4], c[5], c[6], mask=c[7], focus=c[8], symp=c[9], tier=tier)
    if c[10]:
        o.defs["VP_CNSYM"] = 1
        o.name += "-cnsym"
    return o


for c in EDIT_CONFIGS:
    OBLIGATIONS.append(edit_cfg(0, c))
for mode in (2, 3):
    for c in DECODE_CONFIGS:
        OBLIGATIONS.append(edit_cfg(mode, c))
OBLIGATIONS.append(edit_cfg(4, (1, 1, 1, 8, 8, 2, 2, 31, 0, 0, 0)))

# ---- c: ldb_edit_import on arbitrary bytes ----
def edit_arb(n, k=None, tag=None, want=None, tier="quick"):
    defs = {"VP_MODE": 1, "VP_N": n, "VP_SLAB": max(2 * n, 16), "VP_VEC_CAP": 4}
    name = "c.edit-import-arbitrary-N%d" % n
    if tag is not None:
        defs["VP_TAG"] = tag
        name += "-T%d" % tag
    if want is not None:
        defs["VP_WANT"] = want
    iters = n // 2 + 2
    if k is not None and k + 1 < iters:
        defs["VP_K"] = k
        name += "-K%d" % k
        iters = k + 1
    ref_iters = iters + (1 if "VP_K" in defs else 0)
    ncp, ndel, nnf = n // 11, n // 3, n // 22
    return Obl(name, "C17/edit.c", real=EDIT_REAL, kit=EDIT_KIT, include_real=["util/vector.c"],
               defs=defs, replace_calls=EDIT_REPLACE,
               flags=["--max-field-sensitivity-array-size", str(max(2 * n, 16) + 1)],
               unwind=max(3, n + 2),   # no loop of the decoders can run longer than the input
               unwindset=dict([("ref_decode.0", ref_iters), ("ldb_edit_import.0", iters), ("memset.0", 9),
                               ("ldb_edit_clear.0", ncp + 2), ("ldb_edit_clear.1", nnf + 2),
                               ("check_edit.0", ncp + 2), ("check_edit.1", nnf + 2), ("check_edit.2", ndel + 2)] +
                              [("ref_canon_del.%d" % i, ndel + 2) for i in range(5)] +
                              [(l, ndel + 2) for l in ("rb_node_min.0", "rb_node_successor.0", "rb_node_successor.1",
                                                       "ldb_rb_tree_put.0", "rb_tree_insert_fixup.0", "rb_node_clear")]),
               timeout=900, tier=tier, unwind_is_violation=(k is not None),
               functions=["ldb_edit_import", "ldb_level_slurp", "ldb_edit_add_file", "ldb_edit_remove_file",
                          "ldb_edit_set_compact_pointer", "ldb_edit_clear", "ldb_buffer_slurp", "ldb_slice_slurp",
                          "ldb_varint32_read", "ldb_varint64_read"],
               desc="ldb_edit_import accepts iff the reference MANIFEST-record decoder accepts (level < 7, keys >= 8 bytes, "
                    "known tags, complete fields) and then holds exactly the reference's fields; memory-safe on an exact-size input",
               bounds="%d arbitrary bytes%s%s" % (n, "" if tag is None else ", first byte = tag %d" % tag,
                                                  "" if k is None else ", at most %d fields per the reference decoder" % k))


for n in range(0, 4):
    OBLIGATIONS.append(edit_arb(n))
OBLIGATIONS.append(edit_arb(4, k=2, tier="thorough"))
OBLIGATIONS.append(edit_arb(11, k=1, tag=5, want=5))
for n in range(5, 9):
    OBLIGATIONS.append(edit_arb(n, k=2, tier="thorough"))
OBLIGATIONS.append(edit_arb(10, k=1, tag=5, tier="thorough"))
OBLIGATIONS.append(edit_arb(12, k=1, tag=5, want=5, tier="thorough"))
OBLIGATIONS.append(edit_arb(22, k=1, tag=7, want=7, tier="thorough"))
OBLIGATIONS.append(edit_arb(24, k=1, tag=7, want=7, tier="thorough"))

# ---- f: CURRENT ----
for d, tier in ((6, "quick"), (7, "thorough")):
    OBLIGATIONS.append(Obl("f.encode-int-D%d" % d, "C17/current.c", tier=tier,
                           real=["filename.c", "util/strutil.c", "util/slice.c"],
                           kit=["vp_nondet.c", "vp_mem.c", "vp_sprintf.c"],
                           defs={"VP_MODE": 1, "VP_DIGITS": d}, unwind=24, timeout=600,
                           functions=["ldb_encode_int", "ldb_size_int"],
                           desc="ldb_encode_int(x, pad 6) writes the zero-padded decimal numeral of x (Horner value == x, length, NUL)",
                           bounds="every x with %s decimal digits" % ("<= 6" if d == 6 else d)))
# set_current_file: the number is concrete per query (a symbolic number makes every C string length symbolic
# and the query does not finish); the env-call failure pattern and codes are symbolic
SETCUR_NUMS = [("1", "quick"), ("999999", "quick"), ("1000000", "quick"), ("4294967296", "quick"),
               ("18446744073709551615", "quick"), ("42", "thorough"), ("123456", "thorough"),
               ("12345678", "thorough"), ("9999999999", "thorough"), ("10000000000000000000", "thorough")]
for num, tier in SETCUR_NUMS:
    OBLIGATIONS.append(Obl("f.set-current-file-%s" % num, "C17/current.c",
                           real=["filename.c", "util/strutil.c", "util/slice.c"],
                           kit=["vp_nondet.c", "vp_mem.c", "vp_sprintf.c"],
                           defs={"VP_NUM": "VP_U64C(%s)" % num}, unwind=50,
                           timeout=600, tier=tier,
                           functions=["ldb_set_current_file", "ldb_temp_filename", "ldb_current_filename",
                                      "ldb_encode_int", "ldb_join", "ldb_slice_set_str", "make_filename"],
                           desc="temp <db>/NNNNNN.dbtmp written with 'MANIFEST-NNNNNN\\n' and should_sync=1, then renamed to CURRENT; "
                                "any failure: temp removed, error returned; CURRENT never written/removed directly",
                           bounds="descriptor number %s; each env call fails or not with any non-zero code; db name fixed" % num))

OBLIGATIONS.append(Obl("f.env-write-file", "C17/env_write.c", real=["util/env.c"],
                       kit=["vp_nondet.c", "vp_mem.c"], unwind=12, replay=False,
                       replace_calls=["ldb_truncfile_create0:vp_truncfile_create0", "ldb_wfile_append0:vp_wfile_append0",
                                      "ldb_wfile_sync0:vp_wfile_sync0", "ldb_wfile_close:vp_wfile_close",
                                      "ldb_wfile_destroy:vp_wfile_destroy", "ldb_remove_file:vp_remove_file"],
                       functions=["ldb_write_file", "ldb_truncfile_create", "ldb_wfile_append", "ldb_wfile_sync"],
                       desc="ldb_write_file: create, append all data, sync iff should_sync and before close, close, destroy; "
                            "any failure after create => file removed, first error returned",
                       bounds="4 data bytes; should_sync any int; every primitive fails or not with any code"))

for n in (0, 1, 2, 16, 17):
    OBLIGATIONS.append(Obl("f.read-current-N%d" % n, "C17/current_read.c",
                           real=["filename.c", "util/strutil.c", "util/buffer.c", "util/slice.c"],
                           include_real=["version_set.c"],
                           kit=["vp_nondet.c", "vp_mem.c", "vp_alloc_c17.c", "vp_sprintf.c"],
                           defs={"VP_N": n, "VP_SLAB": 32}, unwind=max(n + 12, 16),
                           functions=["read_current_filename", "ldb_current_filename", "ldb_join"],
                           desc="read_current_filename: reads <db>/CURRENT; read error returned; empty or no trailing newline => "
                                "LDB_CORRUPTION; else <db>/<name>",
                           bounds="CURRENT content: %d arbitrary bytes; read fails or not with any code" % n))

from obl.vset_common import reuse_manifest_obls
OBLIGATIONS += reuse_manifest_obls("g")

# d: CURRENT always names a complete MANIFEST: set_current only after the new MANIFEST holds snapshot + edit and is synced
from obl.vset_more import apply_obls
OBLIGATIONS += [o for o in apply_obls("d") if "first" in o.name][:2]

META = {
    "level": "model_checking",
    "level_text": "Bounded model checking (CBMC) of lcdb's own coding.h / version_edit.c / filename.c / util/env.c / "
                  "version_set.c code: encode/decode round trips and agreement with an independently written "
                  "LevelDB-format reference (MANIFEST record encoder and decoder, decimal numerals, CURRENT protocol) "
                  "for every value of the symbolic fields inside the stated sizes; counterexamples are replayed natively.",
    "level_note": "Trusted: CBMC's C semantics of the goto-cc translation, the kit models (allocator never fails, "
                  "fixed-size slabs, byte-loop mem*, %s-only sprintf, buffer-append wrappers), the harness' reference "
                  "encoders/decoders. The edit round trip is decomposed: export == reference bytes, import(reference "
                  "bytes) == original, reference decoder(reference bytes) == original, over the same field domain; one "
                  "query does the direct export->import round trip. Numbers are fully symbolic only in the focused "
                  "field(s) of a query (other fields take concrete representatives of every varint length); real "
                  "MANIFEST histories are not executed.",
    "bounds": [
        "varint32/64 and fixed32/64: all values; varint readers: arbitrary inputs of every length 0..11",
        "edit export: <= 2 new files, <= 2 deleted files, <= 1 compact pointer, internal keys 8..10 symbolic bytes, "
        "comparator name 0..26 bytes; each scalar field focused once with all 64-bit values and symbolic presence; "
        "other numbers concrete representatives of varint lengths 1..10; levels 0..6 symbolic where focused",
        "edit import / reference decoder: the same records; a fully symbolic number or level only in records of one "
        "or two fields; records of up to 10 fields with concrete numbers and symbolic keys",
        "edit import on arbitrary bytes: every input of 0..3 bytes, 11 bytes starting with a compact-pointer tag "
        "(1 field); thorough tier: 4..8 bytes (at most 2 fields), 10, 12, 22, 24 bytes (1 field)",
        "ldb_encode_int: every number of <= 6 decimal digits (thorough: 7 digits)",
        "ldb_set_current_file: descriptor numbers 1, 999999, 1000000, 2^32, 2^64-1 (thorough: 5 more); each env call "
        "fails or not with any non-zero code",
        "ldb_write_file: 4 data bytes, should_sync any int, each primitive fails or not with any code",
        "read_current_filename: CURRENT content of 0, 1, 2, 16, 17 arbitrary bytes; read fails or not",
    ],
    "outside": [
        "edit sequences produced by real histories; thousands of files per edit; keys longer than 10 bytes",
        "all numeric fields of one record fully symbolic at the same time (does not finish: the solver has to split "
        "over every combination of varint lengths); symbolic numbers in decoder-side records of more than two fields",
        "ldb_versions_recover counters contract (C17.e) is not built",
        "descriptor numbers other than the listed ones in ldb_set_current_file; db names other than the fixed one",
        "the file system below ldb_write_file / rename (C02)",
    ],
    "models": [
        "vp_mem.c byte-loop memcpy/memcmp/memset/strlen", "vp_nondet.c symbolic input sources",
        "vp_alloc_c17.c: ldb_malloc never fails; ldb_realloc = one fixed slab per buffer (no copy, overrun inside the "
        "slab and stale pointers across growth invisible to CBMC, seen by the ASan replay); typed pointer slabs for "
        "ldb_vector_t through vp_vector_inc.h (real util/vector.c text)",
        "vp_buffer_c17.c: ldb_buffer_varint32/varint64/export replaced (--replace-calls) by models that compute the "
        "appended length with ldb_varint*_size instead of a pointer difference and assert both agree",
        "vp_sprintf.c: sprintf handling literal characters and %s only (the formats of filename.c)",
        "harness stubs: ldb_write_file / ldb_rename_file / ldb_remove_file recorders (current.c); "
        "ldb_truncfile_create0 / ldb_wfile_append0 / ldb_wfile_sync0 / ldb_wfile_close / ldb_wfile_destroy / "
        "ldb_remove_file recorders installed with --replace-calls (env_write.c, no native replay); ldb_read_file "
        "stub (current_read.c)",
    ],
    "assumptions": [
        "edit round trip = composition of three obligations per size tuple (export bytes == reference; import of "
        "reference bytes; reference decoder of reference bytes)",
    ],
}
