from vp import Obl

OBLIGATIONS = []
for mode, nm in ((0, "varint32-all-values"), (1, "varint64-all-values"), (3, "fixed-all-values")):
    OBLIGATIONS.append(Obl("a.%s" % nm, "C17/varint.c", kit=["vp_nondet.c", "vp_mem.c"],
                           defs={"VP_MODE": mode}, unwind=12,
                           functions=["ldb_varint32_write", "ldb_varint32_read", "ldb_varint32_size",
                                      "ldb_varint64_write", "ldb_varint64_read", "ldb_varint64_size",
                                      "ldb_fixed32_write", "ldb_fixed32_read", "ldb_fixed64_write", "ldb_fixed64_read"],
                           include_real=["util/coding.h"],
                           desc="write == LevelDB reference layout, size fn, read(write(x)) == x for every x"))
for n in range(0, 12):
    OBLIGATIONS.append(Obl("a.varint-read-arbitrary-N%d" % n, "C17/varint.c", kit=["vp_nondet.c", "vp_mem.c"],
                           defs={"VP_MODE": 2, "VP_N": n}, unwind=13, include_real=["util/coding.h"],
                           functions=["ldb_varint32_read", "ldb_varint64_read"],
                           desc="readers on arbitrary bytes agree with reference decoder (accept, value, consumed)"))
META = {"level": "model_checking"}
