"""C18 -- decoders are total and memory-safe on arbitrary bytes.

One harness per decoder entry point, one obligation per concrete input length
(contents symbolic).  Every obligation runs with unwind_is_violation=True:
termination inside the stated per-loop bound is part of the property.
"""
from vp import Obl

OBLIGATIONS = []
KIT = ["vp_nondet.c", "vp_mem.c", "vp_alloc.c"]


def add(name, harness, **kw):
    kw.setdefault("kit", KIT)
    kw.setdefault("unwind_is_violation", True)
    kw.setdefault("timeout", 300)
    OBLIGATIONS.append(Obl(name, harness, **kw))


# ---------------------------------------------------------------- a. coding.h / slice.c / buffer.c
for n in range(0, 13):
    add("a.varint-read-N%d" % n, "C18/coding.c", real=["util/slice.c", "util/buffer.c"],
        defs={"VP_MODE": 0, "VP_N": n}, unwind=max(n, 10) + 2,
        functions=["ldb_varint32_read", "ldb_varint64_read", "ldb_varint32_slurp", "ldb_varint64_slurp"],
        desc="varint32/64 read+slurp on arbitrary bytes: safe, terminate, accept/value/consumed == reference, cursor stays inside input",
        bounds="N=%d arbitrary bytes" % n)
    add("a.fixed-raw-read-N%d" % n, "C18/coding.c", real=["util/slice.c", "util/buffer.c"],
        defs={"VP_MODE": 1, "VP_N": n}, unwind=n + 4,
        functions=["ldb_fixed32_read", "ldb_fixed64_read", "ldb_fixed32_slurp", "ldb_fixed64_slurp", "ldb_raw_read", "ldb_zraw_read"],
        desc="fixed32/64 read+slurp, raw/zraw read with arbitrary requested length: safe, accept iff enough bytes, value == little-endian reference",
        bounds="N=%d arbitrary bytes, requested raw length 0..N+2" % n)
    add("a.slice-read-N%d" % n, "C18/coding.c", real=["util/slice.c", "util/buffer.c"],
        defs={"VP_MODE": 2, "VP_N": n}, unwind=max(n, 5) + 3,
        functions=["ldb_slice_read", "ldb_slice_slurp", "ldb_slice_import", "ldb_buffer_read", "ldb_buffer_set"],
        desc="length-prefixed slice readers: safe, accept iff reference accepts, result slice inside the input and == reference, buffer_read copies payload",
        bounds="N=%d arbitrary bytes" % n)

# ---------------------------------------------------------------- b. write_batch.c
for n in list(range(0, 21)) + list(range(21, 29)):
    add("b.batch-iterate-N%d" % n, "C18/batch.c",
        real=["write_batch.c", "util/slice.c", "util/buffer.c"],
        defs={"VP_N": n}, unwind=n + 2,
        # every complete record is >= 2 bytes (tag + 1-byte length): at most ceil((N-12)/2) loop iterations
        unwindset={"ldb_batch_iterate.0": (max(0, n - 12) + 1) // 2 + 1, "harness.0": (max(0, n - 12) + 1) // 2 + 1,
                   "ldb_varint32_read.0": 6, "vp_ref_varint.0": 6, "vp_ref_le32.0": 5},
        restrict_fp=["ldb_batch_iterate.function_pointer_call.1/vp_rec_put",
                     "ldb_batch_iterate.function_pointer_call.2/vp_rec_del"],
        tier="quick" if n <= 20 else "thorough", timeout=300 if n <= 20 else 1500,
        functions=["ldb_batch_iterate", "ldb_batch_count", "ldb_slice_slurp", "ldb_slice_read", "ldb_varint32_read"],
        desc="batch_iterate over arbitrary rep bytes with recording handler: safe, terminates, OK iff reference parses all records and count field matches; handler sees exactly the reference's records, slices inside the input",
        bounds="rep = N=%d arbitrary bytes (12-byte header included)" % n)

# ---------------------------------------------------------------- c. version_edit.c
# The rb-tree behind edit->deleted_files is modelled in the harness (array set);
# vector.c / buffer.c / dbformat.c are the real ones.
EDIT_REAL = ["version_edit.c", "dbformat.c", "util/slice.c", "util/buffer.c", "util/vector.c"]
EDIT_FUNCS = ["ldb_edit_import", "ldb_level_slurp", "ldb_edit_reset", "ldb_edit_clear", "ldb_edit_set_compact_pointer",
              "ldb_edit_remove_file", "ldb_edit_add_file", "ldb_buffer_slurp", "ldb_slice_slurp", "ldb_varint64_read",
              "ldb_vector_push", "ldb_buffer_set"]
LINKS = ("", "$link1", "$link2", "$link3", "$link4")


def edit_unwindset(n, r):
    """n input bytes, at most r complete records.  Loop names: goto-instrument --show-loops
    (harness.1 = reference main loop, harness.0 = its deleted-set dedupe loop, harness.2-4 = compare loops)."""
    d = {"ldb_edit_import.0": r + 1, "harness.1": r + 2, "harness.0": r + 1, "harness.2": r + 1, "harness.3": r + 1,
         "harness.4": r + 1, "ldb_edit_clear.0": r + 1, "ldb_edit_clear.1": r + 1, "ldb_rb_set_put.0": r + 1,
         "ldb_rb_tree_clear.0": r + 1,
         # vp_alloc.c: slot search over <= 3 + 2r realloc'd buffers; copy of <= max(N, 8r) old bytes
         "ldb_realloc.0": 3 + 2 * r + 1, "ldb_realloc.1": max(n, 8 * r) + 1,
         "memcpy.0": n + 1, "vp_bytes_eq.0": n + 1, "vp_fill.0": n + 1, "vp_ref_varint.0": min(10, n) + 1}
    for sfx in LINKS:
        d["ldb_varint32_read%s.0" % sfx] = min(5, n) + 1
        d["ldb_varint64_read%s.0" % sfx] = min(10, n) + 1
    return d


EDIT_DESC = ("edit_import: safe, terminates, accepts iff the reference VersionEdit decoder accepts, every decoded "
             "field/compact pointer/deleted file/new file == reference, edit clearable afterwards")
# fully arbitrary bytes (every complete record is >= 2 bytes: at most ceil(N/2) loop iterations)
for n in range(0, 7):
    add("c.edit-import-N%d" % n, "C18/edit.c", real=EDIT_REAL, defs={"VP_N": n}, unwind=n + 2,
        unwindset=edit_unwindset(n, (n + 1) // 2),
        tier="quick" if n <= 3 else "thorough", timeout=300 if n <= 3 else 1800, functions=EDIT_FUNCS,
        desc=EDIT_DESC + " -- all inputs", bounds="record = N=%d arbitrary bytes" % n)
# record-count slices: arbitrary bytes restricted (by assumption over the reference decode) to inputs with
# <= K complete records, the K-th ending the input; decoder loop bound = K.  One loop iteration of
# ldb_edit_import costs 30-100 s of solver time whatever N is, hence the sparse quick set.
EDIT_QUICK_1REC = (4, 8, 11, 12, 16, 22, 24)
for k, ns in ((1, range(2, 33)), (2, range(4, 13))):
    for n in ns:
        quick = (k == 1 and n in EDIT_QUICK_1REC)
        add("c.edit-%drec-N%d" % (k, n), "C18/edit.c", real=EDIT_REAL, defs={"VP_N": n, "VP_MAXREC": k}, unwind=n + 2,
            unwindset=edit_unwindset(n, k), tier="quick" if quick else "thorough", timeout=300 if quick else 1800,
            functions=EDIT_FUNCS,
            desc=EDIT_DESC + " -- inputs with <= %d complete record(s), the last ending the input, or a malformed record" % k,
            bounds="record = N=%d arbitrary bytes holding <= %d complete VersionEdit records" % (n, k))

# ---------------------------------------------------------------- d. table/format.c handle + footer
for n in range(0, 23):
    add("d.handle-import-N%d" % n, "C18/format.c", real=["table/format.c", "util/slice.c"],
        defs={"VP_MODE": 0, "VP_N": n}, unwind=max(n, 10) + 2,
        functions=["ldb_handle_import", "ldb_handle_read", "ldb_varint64_read"],
        desc="BlockHandle import/read on arbitrary bytes: safe, accepts iff two varint64 decode, offset/size/consumed == reference",
        bounds="N=%d arbitrary bytes" % n)
for n in (0, 1, 8, 40, 47, 48, 49, 56):
    add("d.footer-import-N%d" % n, "C18/format.c", real=["table/format.c", "util/slice.c"],
        defs={"VP_MODE": 1, "VP_N": n}, unwind=max(n, 10) + 2,
        functions=["ldb_footer_import", "ldb_footer_read", "ldb_handle_read", "ldb_varint64_read"],
        desc="Footer import/read on arbitrary bytes: safe, accepts iff >= 48 bytes, magic at [40,48) and both handles decode; handles == reference; consumes exactly 48",
        bounds="N=%d arbitrary bytes" % n)

# ---------------------------------------------------------------- j. filename.c / strutil.c
STR_KIT = KIT + ["vp_str.c"]
for n in range(0, 13):
    add("j.parse-filename-L%d" % n, "C18/filename.c", real=["filename.c", "util/strutil.c", "util/slice.c"], kit=STR_KIT,
        defs={"VP_MODE": 0, "VP_N": n}, unwind=n + 3, unwindset={"strcmp.0": 9},
        functions=["ldb_parse_filename", "ldb_decode_int", "ldb_starts_with"],
        desc="parse_filename/decode_int/starts_with on an arbitrary NUL-terminated string: never read past the terminator, accept exactly the owned names, type/number == reference",
        bounds="string of exactly %d arbitrary non-NUL chars + NUL" % n)
for n in (19, 20, 21):
    add("j.decode-int-digits-L%d" % n, "C18/filename.c", real=["filename.c", "util/strutil.c", "util/slice.c"], kit=STR_KIT,
        defs={"VP_MODE": 1, "VP_N": n}, unwind=n + 3,
        functions=["ldb_decode_int"],
        desc="decode_int on %d arbitrary decimal digits: accepts iff the value fits uint64 (no wrap-around), value == reference" % n,
        bounds="string of exactly %d arbitrary digits + NUL" % n)

META = {}
