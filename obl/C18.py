"""C18 -- decoders are total and memory-safe on arbitrary bytes.

One harness per decoder entry point, one obligation per concrete input length
(contents symbolic).  Every obligation runs with unwind_is_violation=True:
termination inside the stated per-loop bound is part of the property.
"""
from vp import Obl

OBLIGATIONS = []
KIT = ["vp_nondet.c", "vp_mem.c", "vp_alloc.c"]
# decoders that allocate from untrusted lengths: concrete-size right-aligned slabs (see kit/vp_alloc_slab.c)
SLAB_KIT = ["vp_nondet.c", "vp_mem.c", "vp_alloc_slab.c"]


def add(name, harness, **kw):
    kw.setdefault("kit", KIT)
    kw.setdefault("unwind_is_violation", True)
    kw.setdefault("timeout", 600)
    OBLIGATIONS.append(Obl(name, harness, **kw))


# ---------------------------------------------------------------- a. coding.h / slice.c / buffer.c
for n in range(0, 13):
    add("a.coding-read-N%d" % n, "C18/coding.c", real=["util/slice.c", "util/buffer.c"],
        defs={"VP_MODE": 9, "VP_N": n}, unwind=max(n, 10) + 4,
        functions=["ldb_varint32_read", "ldb_varint64_read", "ldb_varint32_slurp", "ldb_varint64_slurp",
                   "ldb_fixed32_read", "ldb_fixed64_read", "ldb_fixed32_slurp", "ldb_fixed64_slurp", "ldb_raw_read",
                   "ldb_zraw_read", "ldb_slice_read", "ldb_slice_slurp", "ldb_slice_import", "ldb_buffer_read", "ldb_buffer_set"],
        desc="varint32/64, fixed32/64, raw/zraw (arbitrary requested length) and length-prefixed slice/buffer readers on arbitrary bytes: safe, terminate, accept/value/consumed == reference, cursor and result slice stay inside the input",
        bounds="N=%d arbitrary bytes, requested raw length 0..N+2" % n)

# ---------------------------------------------------------------- b. write_batch.c
for n in list(range(0, 21)) + list(range(21, 29)):
    add("b.batch-iterate-N%d" % n, "C18/batch.c",
        real=["write_batch.c", "util/slice.c", "util/buffer.c"],
        defs={"VP_N": n}, unwind=n + 2,
        # every complete record is >= 2 bytes (tag + 1-byte length): at most ceil((N-12)/2) loop iterations
        unwindset={"ldb_batch_iterate.0": (max(0, n - 12) + 1) // 2 + 1, "harness.0": (max(0, n - 12) + 1) // 2 + 1,
                   "ldb_varint32_read.0": 6, "vp_ref_varint.0": 6, "vp_ref_le32.0": 5},
        restrict_fp=["ldb_batch_iterate.function_pointer_call.1/vp_rec_put",
                     "ldb_batch_iterate.function_pointer_call.2/vp_rec_del"],
        tier="quick" if n <= 20 else "thorough", timeout=300 if n <= 20 else 1500,
        functions=["ldb_batch_iterate", "ldb_batch_count", "ldb_slice_slurp", "ldb_slice_read", "ldb_varint32_read"],
        desc="batch_iterate over arbitrary rep bytes with recording handler: safe, terminates, OK iff reference parses all records and count field matches; handler sees exactly the reference's records, slices inside the input",
        bounds="rep = N=%d arbitrary bytes (12-byte header included)" % n)

# ---------------------------------------------------------------- c. version_edit.c
# The rb-tree behind edit->deleted_files is modelled in the harness (array set);
# vector.c / buffer.c / dbformat.c are the real ones.
EDIT_REAL = ["version_edit.c", "dbformat.c", "util/slice.c", "util/buffer.c"]
EDIT_FUNCS = ["ldb_edit_import", "ldb_level_slurp", "ldb_edit_reset", "ldb_edit_clear", "ldb_edit_set_compact_pointer",
              "ldb_edit_remove_file", "ldb_edit_add_file", "ldb_buffer_slurp", "ldb_slice_slurp", "ldb_varint64_read",
              "ldb_vector_push", "ldb_buffer_set"]
LINKS = ("", "$link1", "$link2", "$link3", "$link4")


def edit_unwindset(n, r):
    """n input bytes, at most r complete records.  Loop names: goto-instrument --show-loops
    (harness.1 = reference main loop, harness.0 = its deleted-set dedupe loop, harness.2-4 = compare loops)."""
    d = {"ldb_edit_import.0": r + 1, "harness.1": r + 2, "harness.0": r + 1, "harness.2": r + 1, "harness.3": r + 1,
         "harness.4": r + 1, "ldb_edit_clear.0": r + 1, "ldb_edit_clear.1": r + 1, "ldb_rb_set_put.0": r + 1,
         "ldb_rb_tree_clear.0": r + 1,
         # vp_alloc_slab.c: copy of <= VP_SLAB old bytes; typed vectors of VP_VEC_CAP slots
         "ldb_realloc.0": max(4, n) + 1, "vp_realloc_ptrs.0": 9,
         "memcpy.0": n + 1, "vp_bytes_eq.0": n + 1, "vp_fill.0": n + 1, "vp_ref_varint.0": min(10, n) + 1}
    for sfx in LINKS:
        d["ldb_varint32_read%s.0" % sfx] = min(5, n) + 1
        d["ldb_varint64_read%s.0" % sfx] = min(10, n) + 1
    return d


EDIT_DESC = ("edit_import: safe, terminates, accepts iff the reference VersionEdit decoder accepts, every decoded "
             "field/compact pointer/deleted file/new file == reference, edit clearable afterwards")
# fully arbitrary bytes (every complete record is >= 2 bytes: at most ceil(N/2) loop iterations)
for n in range(0, 7):
    add("c.edit-import-N%d" % n, "C18/edit.c", real=EDIT_REAL, include_real=["util/vector.c"], kit=SLAB_KIT,
        defs={"VP_N": n, "VP_SLAB": max(4, n), "VP_VEC_CAP": 8}, unwind=n + 2,
        unwindset=edit_unwindset(n, (n + 1) // 2),
        tier="quick" if n <= 3 else "thorough", timeout=900 if n <= 3 else 1800, functions=EDIT_FUNCS,
        desc=EDIT_DESC + " -- all inputs", bounds="record = N=%d arbitrary bytes" % n)
# record-count slices: arbitrary bytes restricted (by assumption over the reference decode) to inputs with
# <= K complete records, the K-th ending the input; decoder loop bound = K.  One loop iteration of
# ldb_edit_import costs 30-100 s of solver time whatever N is, hence the sparse quick set.
EDIT_QUICK_1REC = (4, 11)   # smallest records / a compact pointer can be accepted (new file, 22 bytes: thorough)
for k, ns in ((1, range(2, 33)), (2, range(4, 13))):
    for n in ns:
        quick = (k == 1 and n in EDIT_QUICK_1REC)
        add("c.edit-%drec-N%d" % (k, n), "C18/edit.c", real=EDIT_REAL, include_real=["util/vector.c"], kit=SLAB_KIT,
            defs={"VP_N": n, "VP_MAXREC": k, "VP_SLAB": max(4, n), "VP_VEC_CAP": 8}, unwind=n + 2,
            unwindset=edit_unwindset(n, k), tier="quick" if quick else "thorough", timeout=900 if quick else 1800,
            functions=EDIT_FUNCS,
            desc=EDIT_DESC + " -- inputs with <= %d complete record(s), the last ending the input, or a malformed record" % k,
            bounds="record = N=%d arbitrary bytes holding <= %d complete VersionEdit records" % (n, k))

# ---------------------------------------------------------------- d. table/format.c handle + footer
for n in range(0, 21):
    add("d.handle-import-N%d" % n, "C18/format.c", real=["table/format.c", "util/slice.c"],
        defs={"VP_MODE": 0, "VP_N": n}, unwind=max(n, 10) + 2,
        functions=["ldb_handle_import", "ldb_handle_read", "ldb_varint64_read"],
        desc="BlockHandle import/read on arbitrary bytes: safe, accepts iff two varint64 decode, offset/size/consumed == reference",
        bounds="N=%d arbitrary bytes" % n)
for n in (0, 1, 8, 40, 47, 48, 49, 56):
    add("d.footer-import-N%d" % n, "C18/format.c", real=["table/format.c", "util/slice.c"],
        defs={"VP_MODE": 1, "VP_N": n}, unwind=max(n, 10) + 2,
        functions=["ldb_footer_import", "ldb_footer_read", "ldb_handle_read", "ldb_varint64_read"],
        desc="Footer import/read on arbitrary bytes: safe, accepts iff >= 48 bytes, magic at [40,48) and both handles decode; handles == reference; consumes exactly 48",
        bounds="N=%d arbitrary bytes" % n)

# ---------------------------------------------------------------- j. filename.c / strutil.c
STR_KIT = KIT + ["vp_str.c"]
for n in range(0, 13):
    add("j.parse-filename-L%d" % n, "C18/filename.c", real=["filename.c", "util/strutil.c", "util/slice.c"], kit=STR_KIT,
        defs={"VP_MODE": 0, "VP_N": n}, unwind=n + 3, unwindset={"strcmp.0": 9},
        functions=["ldb_parse_filename", "ldb_decode_int", "ldb_starts_with"],
        desc="parse_filename/decode_int/starts_with on an arbitrary NUL-terminated string: never read past the terminator, accept exactly the owned names, type/number == reference",
        bounds="string of exactly %d arbitrary non-NUL chars + NUL%s" % (n, "" if n <= 7 else ", leading digit run <= 7"))
for n in (20, 21):
    add("j.decode-int-boundary-L%d" % n, "C18/filename.c", real=["filename.c", "util/strutil.c", "util/slice.c"], kit=STR_KIT,
        defs={"VP_MODE": 1, "VP_N": n}, unwind=n + 3,
        functions=["ldb_decode_int"],
        desc="decode_int around UINT64_MAX: concrete prefix 18446744073709551[6[1]] + 2 arbitrary chars: accepts iff the value fits uint64 (no wrap-around), value == reference",
        bounds="string of %d chars: %d concrete digits + 2 arbitrary non-NUL chars + NUL" % (n, n - 2))
for n in (8, 10, 12, 19):
    add("j.decode-int-digits-L%d" % n, "C18/filename.c", real=["filename.c", "util/strutil.c", "util/slice.c"], kit=STR_KIT,
        defs={"VP_MODE": 2, "VP_N": n}, unwind=n + 3, tier="thorough", timeout=3000,
        functions=["ldb_decode_int"],
        desc="decode_int on %d arbitrary decimal digits: accepted (fits uint64), value == reference" % n,
        bounds="string of exactly %d arbitrary digits + NUL" % n)

# ---------------------------------------------------------------- i. dbformat.c
for n in range(0, 13):
    add("i.pkey-import-N%d" % n, "C18/dbformat.c", real=["dbformat.c", "util/slice.c", "util/buffer.c", "util/comparator.c"],
        defs={"VP_MODE": 0, "VP_N": n}, unwind=n + 2,
        functions=["ldb_pkey_import"],
        desc="pkey_import on arbitrary bytes: safe, accepts iff >= 8 bytes and type byte <= 1; user key/sequence/type == reference",
        bounds="N=%d arbitrary bytes" % n)
for (n, m) in ((8, 8), (8, 9), (9, 8), (10, 10), (12, 9), (12, 12), (16, 16)):
    add("i.ikc-compare-N%d-M%d" % (n, m), "C18/dbformat.c", real=["dbformat.c", "util/slice.c", "util/buffer.c", "util/comparator.c"],
        defs={"VP_MODE": 1, "VP_N": n, "VP_M": m}, unwind=max(n, m) + 2,
        restrict_fp=["harness.function_pointer_call.1/ldb_ikc_compare", "harness.function_pointer_call.2/ldb_ikc_compare",
                     "ldb_ikc_compare.function_pointer_call.1/slice_compare"],
        functions=["ldb_ikc_compare", "slice_compare", "ldb_ikc_init"],
        desc="internal key comparator over bytewise on two arbitrary keys >= 8 bytes: safe, sign == reference (user key asc, trailer desc), antisymmetric",
        bounds="keys of %d and %d arbitrary bytes" % (n, m))

# ---------------------------------------------------------------- e. table/block.c
BLOCK_REAL = ["table/iterator.c", "util/comparator.c", "util/buffer.c", "util/slice.c", "dbformat.c"]
BLOCK_FUNCS = ["ldb_block_init", "ldb_blockiter_create", "ldb_blockiter_first", "ldb_blockiter_last", "ldb_blockiter_seek",
               "ldb_blockiter_next", "ldb_blockiter_prev", "parse_next_key", "decode_entry", "get_restart_point",
               "seek_to_restart_point", "ldb_blockiter_corruption", "ldb_iter_destroy"]
OPNAME = {1: "first", 2: "last", 3: "seek", 4: "next", 5: "prev", 6: "seek2"}


def block_unwindset(n, t, slab):
    """D = largest data region (N minus num_restarts word minus one restart), E = most entries (>= 3 bytes each),
    R = most restart points.  Loop names: goto-instrument --show-loops."""
    dd = max(0, n - 8)
    e = dd // 3
    r = max(0, n - 4) // 4
    d = {"ldb_blockiter_last.0": e + 2, "ldb_blockiter_seek.0": r + 1, "ldb_blockiter_seek.1": e + 2,
         "ldb_blockiter_prev.0": r + 1, "ldb_blockiter_prev.1": e + 2, "parse_next_key.0": r + 1,
         "memcpy.0": dd + 1, "memcmp.0": max(dd, t) + 1, "ldb_realloc.0": slab + 1,
         "vp_ref_step.0": dd + 1, "vp_do_op.0": e + 2, "vp_check_state.0": dd + 1, "vp_check_same.0": dd + 1,
         "vp_ref_bytewise.0": max(dd, t) + 1, "vp_ref_varint.0": 6, "vp_ref_le32.0": 5, "vp_ref_le64.0": 9,
         "vp_fill.0": max(n, t) + 1}
    for sfx in LINKS:
        d["ldb_varint32_read%s.0" % sfx] = 6
    return d


def block_obl(n, ops, ikc=0, t=2, tier="quick", timeout=900):
    ops = tuple(ops) + (0,) * (3 - len(ops))
    nm = "-".join(OPNAME[o] for o in ops if o) or "init"
    emin = 11 if ikc else 3                      # smallest entry that can be valid
    need = 1 + sum(1 for o in ops[1:] if o == 4) + (1 if 5 in ops else 0)
    seeks = (3 in ops or 6 in ops)
    slab = max(4, 2 * max(0, n - 8) + 2)   # key buffer <= data region D = N-8; buffer.c grows by x1.5
    defs = {"VP_SLAB": slab, "VP_N": n, "VP_T": t, "VP_OP1": ops[0], "VP_OP2": ops[1], "VP_OP3": ops[2], "VP_IKC": ikc}
    seek_corrupt = ikc and t < 8 and (3 in ops or 6 in ops)
    # a seek can only end valid on a key >= target: bytewise needs a non-empty key against a non-empty target
    if n >= 8 + emin * need + (1 if (seeks and not ikc and t > 0) else 0) and not seek_corrupt:
        defs["VP_WIT_VALID"] = None
    if n >= 9 or (seek_corrupt and n >= 8):
        defs["VP_WIT_CORRUPT"] = None
    if seek_corrupt:
        defs["VP_NO_WIT_EXHAUSTED"] = None
    cmpfn = "ldb_ikc_compare" if ikc else "slice_compare"
    fp = ["harness.function_pointer_call.1/ldb_emptyiter_valid", "harness.function_pointer_call.2/ldb_emptyiter_status",
          "harness.function_pointer_call.3/ldb_emptyiter_status",
          "ldb_iter_clear.function_pointer_call.1/ldb_blockiter_clear,ldb_emptyiter_clear",
          "do_compare.function_pointer_call.1/" + cmpfn]
    if ikc:
        fp.append("ldb_ikc_compare.function_pointer_call.1/slice_compare")
    add("e.block-%s%s-N%d%s" % ("ikc-" if ikc else "", nm, n, ("-T%d" % t) if (3 in ops or 6 in ops) else ""),
        "C18/block.c", real=BLOCK_REAL, include_real=["table/block.c"], kit=SLAB_KIT, defs=defs, unwind=n + 2,
        unwindset=block_unwindset(n, t, slab), restrict_fp=fp,
        tier=tier, timeout=timeout, functions=BLOCK_FUNCS,
        desc="block_init + blockiter_create + %s on arbitrary block bytes (%s comparator): safe, terminates, status OK/CORRUPTION, valid => entry at the iterator offset decodes per reference and key suffix/value == its bytes; first/next/last == reference sequential decode; seek => key >= target; prev/next move strictly" % (nm, "internal-key" if ikc else "bytewise"),
        bounds="block = N=%d arbitrary bytes%s" % (n, (", target %d arbitrary bytes" % t) if (3 in ops or 6 in ops) else ""))


ALL_OPS = ((1,), (2,), (3,), (1, 4), (2, 5), (3, 4), (3, 5), (3, 6))
for n in (0, 3, 4, 7):
    block_obl(n, (0,))
BLOCK_QUICK_OPS = ((1,), (2,), (3,), (1, 4), (2, 5))
for ops in ALL_OPS:
    if ops in BLOCK_QUICK_OPS:
        block_obl(12, ops)
    else:
        block_obl(12, ops, tier="thorough", timeout=3600)
block_obl(11, (1,))
# two restart points + one valid entry need >= 15 bytes: binary search of seek (quick); the restart-array scan of
# prev at 15 bytes costs > 200 s and is thorough-only
block_obl(16, (3,))
block_obl(12, (3,), ikc=1, t=7, tier="thorough", timeout=3600)
for ops in ALL_OPS[1:]:
    block_obl(11, ops, tier="thorough", timeout=3600)
# thorough: more sizes (16 = two restart points / up to 2 entries, 20 = two distinct restart regions), 3-op sequences,
# internal-key comparator with entries that can be valid (>= 11 bytes each)
for n in (8, 9, 10, 13, 14, 15, 16):
    for ops in ALL_OPS:
        if (n, ops) != (16, (3,)):
            block_obl(n, ops, tier="thorough", timeout=3600)
for n in (12, 14):
    for ops in ((1, 4, 4), (1, 4, 5), (3, 4, 5), (3, 6, 5), (2, 5, 5)):
        block_obl(n, ops, tier="thorough", timeout=3600)
for n in (19, 20):
    for ops in ((1,), (2,), (3,), (2, 5), (3, 5)):
        block_obl(n, ops, ikc=1, t=8, tier="thorough", timeout=7200)
for ops in ((1,), (3,)):
    block_obl(20, ops, tier="thorough", timeout=7200)

# ---------------------------------------------------------------- f. table/filter_block.c (+ util/bloom.c match)
for n in range(0, 25):
    add("f.filter-matches-N%d" % n, "C18/filter.c", real=["table/filter_block.c", "util/slice.c"],
        defs={"VP_MODE": 0, "VP_N": n, "VP_K": 3}, unwind=max(n, 3) + 2,
        restrict_fp=["ldb_filter_matches.function_pointer_call.1/vp_policy_match"],
        tier="quick" if n <= 16 else "thorough",
        functions=["ldb_filter_init", "ldb_filter_matches"],
        desc="filter_init + filter_matches(arbitrary block offset) on arbitrary filter-block bytes with a recording policy: safe, number of filters/geometry == reference, policy consulted iff reference finds a well-formed filter, with exactly that slice (inside the block); result == reference",
        bounds="filter block = N=%d arbitrary bytes, block_offset arbitrary 64-bit" % n)
for n in (0, 1, 2, 3, 5, 9):
    add("f.bloom-match-N%d" % n, "C18/filter.c", real=["util/bloom.c", "util/slice.c", "util/buffer.c"],
        defs={"VP_MODE": 1, "VP_N": n, "VP_K": 3}, unwind=32,
        restrict_fp=["harness.function_pointer_call.1/bloom_match"],
        tier="quick" if n <= 5 else "thorough", timeout=600,
        functions=["bloom_match", "bloom_hash"],
        desc="bloom_match on an arbitrary filter (hash value arbitrary): safe (probe index inside the filter for every k <= 30), result == reference probe sequence; k > 30 => match, len < 2 => no match",
        bounds="filter = N=%d arbitrary bytes, hash arbitrary 32-bit" % n)

# ---------------------------------------------------------------- g. util/snappy.c
for (n, out, tier, timeout) in [(n, 8, "quick", 900) for n in range(0, 9)] + \
                               [(n, 16, "thorough", 3600) for n in range(2, 13)] + \
                               [(n, 32, "thorough", 7200) for n in (4, 8)]:
    add("g.snappy-decode-N%d-O%d" % (n, out), "C18/snappy.c", real=["util/snappy.c"],
        defs={"VP_N": n, "VP_OUT": out}, unwind=out + 2,
        # every element consumes >= 1 input byte; copies/literals are <= remaining output
        # (loop numbers from goto-instrument --show-loops: .0 of decode_blocks is the inner overlap-copy loop)
        unwindset={"decode_blocks.1": n + 1, "decode_blocks.0": out + 1, "vp_ref_snappy.3": n + 1, "vp_ref_snappy.0": 5,
                   "vp_ref_snappy.1": out + 1, "vp_ref_snappy.2": out + 1, "harness.0": out + 1, "memcpy.0": out + 1,
                   "vp_fill.0": max(n, 1) + 1, "ldb_varint32_read.0": 6, "vp_ref_varint.0": 6},
        tier=tier, timeout=timeout,
        functions=["snappy_decode_size", "snappy_decode", "decode_blocks"],
        desc="snappy_decode_size + snappy_decode into a buffer of exactly the announced length: safe (no write past it, no read outside input), terminates, accepts iff the reference snappy decoder accepts, output == reference",
        bounds="compressed = N=%d arbitrary bytes, announced uncompressed length <= %d" % (n, out))

# ---------------------------------------------------------------- h. log_reader.c
def log_obl(n, calls, tier, timeout):
    slab = max(4, 3 * max(0, n - 7) // 2 + 2)   # scratch <= N-7 payload bytes, buffer.c grows by x1.5
    pr = n // 7 + 1                              # physical records per call, + 1 for the EOF/BAD step
    add("h.log-read-C%d-N%d" % (calls, n), "C18/logreader.c", real=["log_reader.c", "util/buffer.c", "util/slice.c"],
        kit=SLAB_KIT + ["vp_cksum.c"], defs={"VP_N": n, "VP_SLAB": slab, "VP_CALLS": calls}, unwind=n + 2,
        unwindset={"read_physical_record.0": 3, "ldb_reader_read_record.0": pr + 1, "vp_ref_read.0": max(n - 6, n // 7 + 4) + 1,
                   "vp_ref_read.1": max(n - 6, n // 7 + 4) + 1, "vp_ref_read.2": max(n - 6, n // 7 + 4) + 1,
                   "harness.0": max(calls, n - 6) + 1, "harness.1": max(calls, n - 6) + 1, "ldb_realloc.0": slab + 1, "ldb_crc32c_extend.0": max(1, n - 6) + 1,
                   "vp_cksum_extend.0": max(1, n - 6) + 1, "sprintf.0": 31, "vp_ref_le32.0": 5,
                   "memcpy.0": max(1, n - 7) + 1},
        restrict_fp=["report_drop.function_pointer_call.1/vp_reporter"],
        tier=tier, timeout=timeout,
        functions=["ldb_reader_read_record", "read_physical_record", "report_drop", "report_corruption", "ldb_reader_init"],
        desc="%d call(s) of reader_read_record over an arbitrary log file (src hook, abstract checksum, recording reporter): safe, terminates, each call returns a record iff the reference reader does, record bytes/length, number of corruption reports and dropped byte totals == reference" % calls,
        bounds="file = N=%d arbitrary bytes (single 32 KiB block), initial_offset 0, checksum on, %d read_record call(s)" % (n, calls))


for n in range(0, 7):
    log_obl(n, 1, "quick", 300)
for n in (7, 8, 14, 15):
    log_obl(n, 1, "quick", 900)
for n in list(range(9, 14)) + list(range(16, 25)):
    log_obl(n, 1, "thorough", 3600)
for n in (7, 8, 14, 15, 16, 21, 22):
    log_obl(n, n // 7 + 1, "thorough", 7200)

# promote: a complete new-file record (tag 7) needs >= 14 bytes; keep one such size in the quick tier
for _o in OBLIGATIONS:
    if _o.name in ("c.edit-1rec-N16",):
        _o.tier = "quick"

META = {
    "level": "model_checking",
    "level_text": "Bounded model checking (CBMC 6.11) of lcdb's own decoder code (util/coding.h, util/slice.c, util/buffer.c, "
                  "write_batch.c, version_edit.c, table/format.c, table/block.c, table/filter_block.c, util/bloom.c, util/snappy.c, "
                  "log_reader.c, dbformat.c, filename.c, util/strutil.c) on ARBITRARY input bytes of every concrete length in the "
                  "stated ranges: CBMC's pointer/bounds/signed-overflow/shift/pointer-overflow checks, termination inside per-loop "
                  "bounds derived from the input length (an unwinding-assertion failure is a counterexample), and agreement "
                  "(accept/reject, decoded values, bytes consumed, slices inside the input) with independent reference decoders "
                  "written in the harnesses from the LevelDB format documents; counterexamples are replayed natively under ASan+UBSan.",
    "level_note": "Trusted: CBMC's C semantics of the goto-cc translation, the kit models (allocator never fails; "
                  "kit/vp_alloc_slab.c gives every ldb_realloc buffer a concrete-size object with the buffer right-aligned so that "
                  "overruns past the requested size are still out of bounds, underruns inside the slab are not seen; byte-loop mem*/str*; "
                  "abstract streaming checksum instead of CRC-32C; red-black tree of version_edit's deleted_files modelled as an array set; "
                  "ldb_hash abstracted to an arbitrary 32-bit value in the bloom obligation), and the harness reference decoders. "
                  "Input sizes are tiny (see bounds); the decoder loops are covered for the iteration counts those sizes allow. "
                  "version_edit and block iterator obligations are sliced (<= 1 or 2 complete records per edit; one to three iterator "
                  "operations per query) because one loop iteration of those units costs 30-300 s of solver time.",
    "explanation": "Every obligation feeds vp_input(N)+vp_fill (an exact-size heap object with symbolic contents) to one decoder entry point; "
                   "both the accept and the reject path carry a reachability witness where the length allows both.",
    "bounds": [
        "coding.h/slice.c/buffer.c readers: every length 0..12",
        "write batch (ldb_batch_iterate, recording handler): every rep length 0..20 (quick), ..28 (thorough)",
        "version edit (ldb_edit_import): all inputs of length 0..3 (quick), ..6 (thorough); inputs holding <= 1 complete record: lengths 4, 11, 22 (quick), 2..32 (thorough); <= 2 records: 4..12 (thorough)",
        "block handle: every length 0..20; footer: lengths 0, 1, 8, 40, 47, 48, 49, 56",
        "block (init, create, first/last/seek/next/prev/second seek, bytewise comparator): init 0,3,4,7; first, last, seek, first-next, last-prev at 12 bytes, first at 11, seek at 16 (quick); all 8 op sequences at 8..16 and 20 bytes, 3-op sequences at 12/14, internal-key comparator at 12/19/20 bytes (thorough); seek targets of 2 (bytewise) / 7, 8 (internal) arbitrary bytes",
        "filter block reader: every length 0..16 (quick), ..24 (thorough), arbitrary 64-bit block offset; bloom_match on filters of 0,1,2,3,5 (9 thorough) bytes",
        "snappy: compressed length 0..8 with announced length <= 8 (quick); 2..12 with <= 16, 4/8 with <= 32 (thorough)",
        "log reader (first read_record call, src hook, abstract checksum, recording reporter): every file length 0..8, 14, 15 (quick), 9..24 and all calls until EOF at 7,8,14,15,16,21,22 (thorough)",
        "parsed internal key: every length 0..12; internal key comparator: key pairs (8,8),(8,9),(9,8),(10,10),(12,9),(12,12),(16,16)",
        "file names / decimal numbers: every NUL-terminated string of 0..12 non-NUL chars (digit runs <= 7 for length > 7), the uint64 boundary with 18/19 concrete leading digits + 2 arbitrary chars; all-digit strings of 8,10,12,19 chars (thorough)",
    ],
    "outside": [
        "inputs longer than the stated lengths (real blocks are 4 KiB, log blocks 32 KiB: the 32 KiB block boundary of the log reader, multi-block files and initial_offset > 0 are not covered)",
        "version edits with 3 or more records in one query; block iterator sequences longer than 3 operations; blocks with more than ~4 entries or 4 restart points",
        "ldb_read_block (file read + checksum + decompression glue), ldb_table_open/internal_get, repair.c, dumpfile.c, whole-database operations on mutated directories",
        "real CRC-32C (abstract checksum here; CRC itself is C15), real ldb_hash in bloom_match",
        "ldb_slice_decode (memtable-internal, trusted 5-byte prefix precondition)",
        "allocation failure; accesses before the start of an ldb_realloc'ed buffer that stay inside its slab",
    ],
    "models": [
        "kit/vp_nondet.c symbolic input sources", "kit/vp_mem.c byte-loop memcpy/memmove/memset/memcmp/strlen",
        "kit/vp_str.c byte-loop strcmp/strncmp/strrchr (new, C18)",
        "kit/vp_alloc.c (coding, batch, format, dbformat, filename, filter obligations)",
        "kit/vp_alloc_slab.c concrete-size right-aligned slabs for ldb_realloc + typed fixed-capacity pointer vectors (new, C18; block, edit, log reader)",
        "kit/vp_vector_inc.h real util/vector.c with typed pointer arrays (edit)",
        "kit/vp_cksum.c abstract streaming checksum for ldb_crc32c_extend (log reader)",
        "harness model of util/rbt.c set (ldb_rb_tree_init/clear, ldb_rb_set_put) in C18/edit.c",
        "harness model of sprintf (writes the longest possible 'unknown record type' message) in C18/logreader.c",
        "harness stub ldb_hash = arbitrary 32-bit value in C18/filter.c (bloom obligation)",
        "function-pointer call sites restricted to the installed targets (handler, comparator, filter policy, reporter, iterator clear)",
    ],
    "assumptions": [
        "snappy: announced uncompressed length <= VP_OUT (the caller-allocated output buffer has exactly the announced length)",
        "version edit slices: the input holds at most K complete records (K-th ends the input) as decided by the reference decoder",
        "file names longer than 7 chars: leading digit run <= 7 digits (long runs: boundary and thorough all-digit obligations)",
        "iterator next/prev are only issued on a valid iterator (documented precondition)",
    ],
}
