"""Obligations over the real version_set.c (harness/vset/*)."""
from vp import Obl

KIT = ["vp_nondet.c", "vp_mem.c", "vp_alloc.c"]
GET_REAL = ["dbformat.c", "util/comparator.c", "util/buffer.c", "util/slice.c", "util/options.c"]
GET_FUNCS = ["ldb_version_get", "ldb_version_for_each_overlapping", "newest_first", "find_file",
             "getstate_match", "save_value", "ldb_ikc_compare", "ldb_pkey_import", "ldb_lkey_init",
             "ldb_ikey_set", "ldb_vector_sort"]


GET_FP = ["ldb_partition.function_pointer_call.1/newest_first", "ldb_partition.function_pointer_call.2/newest_first",
          "ldb_version_for_each_overlapping.function_pointer_call.1/slice_compare",
          "ldb_version_for_each_overlapping.function_pointer_call.2/slice_compare",
          "ldb_version_for_each_overlapping.function_pointer_call.3/getstate_match",
          "ldb_version_for_each_overlapping.function_pointer_call.4/slice_compare",
          "ldb_version_for_each_overlapping.function_pointer_call.5/getstate_match",
          "ldb_find_file.function_pointer_call.1/ldb_ikc_compare",
          "ldb_ikc_compare.function_pointer_call.1/slice_compare",
          "save_value.function_pointer_call.1/slice_compare",
          "name:ldb_tables_get::handle_result/save_value"]


def get_obls(prefix, mode, tuples, tier="quick", table_err=0, known=None, tag=""):
    """tuples: (l0, l1, l2, la, lb, e)"""
    out = []
    for (l0, l1, l2, la, lb, e) in tuples:
        nf = l0 + l1 + l2
        name = "%s.version-get%s-m%d-L0x%d-L%dx%d-L%dx%d-E%d%s" % (prefix, tag, mode, l0, la, l1, lb, l2, e,
                                                               "-tableerr" if table_err else "")
        out.append(Obl(name, "vset/get.c", real=GET_REAL, include_real=["version_set.c", "util/vector.c"], kit=KIT,
                       defs={"VP_MODE": mode, "VP_L0": l0, "VP_L1": l1, "VP_L2": l2, "VP_LA": la, "VP_LB": lb,
                             "VP_E": e, "VP_TABLE_ERR": table_err, "VP_ALLOC_TRACK": 6},
                       unwind=max(11, nf * e + 2), restrict_fp=GET_FP,
                       unwindset={"ldb_realloc.0": 7, "vp_realloc_ptrs.0": 9, "vp_realloc_ptrs.1": nf + 2, "vp_realloc_ptrs.2": nf + 2, "ldb_qsort": l0 + 1, "ldb_partition.0": l0 + 1,
                                  "ldb_partition.1": l0 + 1, "ldb_partition.2": l0 + 1, "memcmp.0": 3,
                                  "ldb_version_for_each_overlapping.0": l0 + 1,
                                  "ldb_version_for_each_overlapping.1": l0 + 1,
                                  "ldb_version_for_each_overlapping.2": 7,
                                  "ldb_find_file.0": 3},
                       flags=["--slice-formula"], tier=tier, timeout=900, known=known,
                       functions=GET_FUNCS,
                       desc="real ldb_version_get over a symbolic version == newest entry <= snapshot over all entries of all files",
                       bounds="%d level-0 files, %d files in level %d, %d in level %d, %d entries per file, 1-byte user keys, all sequences/types/file numbers" % (l0, l1, la, l2, lb, e)))
    return out


def reuse_manifest_obls(prefix):
    return [Obl("%s.reuse-manifest" % prefix, "vset/reuse_manifest.c", real=["util/options.c", "util/comparator.c"],
                include_real=["version_set.c"], kit=["vp_nondet.c", "vp_mem.c"], unwind=4, timeout=300,
                functions=["ldb_versions_reuse_manifest", "target_file_size"],
                desc="real ldb_versions_reuse_manifest: reuse iff allowed/parsable/small/openable; the appending log writer is created with exactly the MANIFEST's size",
                bounds="all option values, sizes, numbers, failure combinations")]


def add_iterators_obls(prefix):
    out = []
    for (l0, deep) in ((0, 6), (2, 6), (1, 1), (2, 3)):
        out.append(Obl("%s.version-add-iterators-L0x%d-deep%d" % (prefix, l0, deep), "vset/add_iterators.c",
                       real=["util/options.c", "util/comparator.c", "dbformat.c", "util/buffer.c", "util/slice.c", "table/iterator.c"],
                       include_real=["version_set.c", "util/vector.c"], kit=KIT,
                       defs={"VP_L0": l0, "VP_DEEP": deep, "VP_ALLOC_TRACK": 4},
                       unwind=8, unwindset={"ldb_realloc.0": 5, "vp_realloc_ptrs.0": 9, "vp_realloc_ptrs.1": 6, "vp_realloc_ptrs.2": 10},
                       timeout=900, functions=["ldb_version_add_iterators", "ldb_concatiter_create"],
                       desc="real ldb_version_add_iterators: one child per level-0 file plus one two-level iterator per non-empty level 1..6",
                       bounds="%d level-0 files, one file on level %d" % (l0, deep)))
    return out
