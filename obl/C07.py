"""C07 -- iterators give a consistent, ordered, complete view in both directions.

One iterator layer per query (DESIGN R4), each driven by a short sequence of
symbolic operations and compared with an independent sorted-map cursor written
in the harness (harness/C07/ref.h).  The layer below the unit is always the
array iterator model kit/vp_arriter.c.

Function-pointer call sites (DESIGN R8) are restricted to the targets the
harness installs.  The site labels (<function>.function_pointer_call.<n>) are
numbered per function in program order, so a source change in the unit would
shift them; they are therefore *derived from the goto binary of the current
working tree* at build time (AutoObl.restrict_fp below): every call through
`->table-><slot>` goes to vp_arr_<slot>, every `->compare` to the bytewise
comparator, the two-level iterator's block_function to the harness' block
function.  CBMC asserts at each site that the pointer really is that target.
"""
import os
import re
import shutil
import subprocess
import tempfile
import threading

import vp
from vp import Obl

_SLOTS = ("clear", "valid", "first", "last", "seek", "next", "prev", "key", "value", "status")
_fp_lock = threading.Lock()
_fp_cache = {}


def _sh(cmd):
    p = subprocess.run(cmd, stdout=subprocess.PIPE, stderr=subprocess.STDOUT)
    return p.returncode, p.stdout.decode(errors="replace")


def _fp_sites(obl):
    """Build the obligation's goto binary once (private temp dir), let
    goto-instrument label the function-pointer call sites and return
    [(label, member name of the called pointer)]."""
    d = tempfile.mkdtemp(prefix="lcdb-verif-c07fp.", dir="/var/tmp")
    try:
        objs = []
        hdefs = ["-DVP_CBMC"] + ["-D%s=%s" % (k, v) for k, v in sorted(obl.defs.items())]
        srcs = [(os.path.join(vp.SRC, r), []) for r in obl.real]
        srcs += [(os.path.join(vp.HARN, obl.harness), ["-I" + vp.KIT, "-I" + vp.HARN] + hdefs)]
        srcs += [(os.path.join(vp.KIT, k), ["-I" + vp.KIT, "-I" + vp.HARN] + hdefs) for k in obl.kit]
        for i, (s, extra) in enumerate(srcs):
            o = os.path.join(d, "o%d.gb" % i)
            rc, out = _sh(["goto-cc", "-c"] + vp.REAL_CFLAGS + extra + [s, "-o", o])
            if rc != 0:
                raise RuntimeError("C07 fp-site scan: goto-cc failed for %s:\n%s" % (s, out[-2000:]))
            objs.append(o)
        linked = os.path.join(d, "l.gb")
        rc, out = _sh(["goto-cc"] + objs + ["-o", linked])
        if rc != 0:
            raise RuntimeError("C07 fp-site scan: link failed:\n%s" % out[-2000:])
        lab = os.path.join(d, "lab.gb")
        # any one restriction makes goto-instrument label every site
        rc, out = _sh(["goto-instrument", "--restrict-function-pointer",
                       "ldb_iter_clear.function_pointer_call.1/ldb_free", linked, lab])
        if rc != 0 or not os.path.exists(lab):
            raise RuntimeError("C07 fp-site scan: labelling failed:\n%s" % out[-2000:])
        rc, out = _sh(["goto-instrument", "--show-goto-functions", lab])
        sites = []
        for m in re.finditer(r"ASSIGN (\S+\.function_pointer_call\.\d+) := (.*)", out):
            label, rhs = m.group(1), m.group(2).strip()
            mm = re.search(r"([A-Za-z_][A-Za-z_0-9]*)\s*$", rhs)
            sites.append((label, mm.group(1) if mm else ""))
        return sites
    finally:
        shutil.rmtree(d, ignore_errors=True)


class AutoObl(Obl):
    """Obl whose restrict_fp list is derived from the current tree."""

    def __init__(self, *a, **kw):
        self.fp_rules = dict(kw.pop("fp_rules", {}))   # member name -> target ("" = leave unrestricted)
        self.fp_key = kw.pop("fp_key", None)
        self._fp_val = None
        Obl.__init__(self, *a, **kw)

    @property
    def restrict_fp(self):
        if self._fp_val is not None:
            return self._fp_val
        key = (self.harness, tuple(self.real), tuple(self.kit), self.fp_key,
               tuple(sorted(self.fp_rules.items())))
        with _fp_lock:
            ent = _fp_cache.setdefault(key, {"lock": threading.Lock(), "val": None})
        with ent["lock"]:
            if ent["val"] is None:
                rules = {s: "vp_arr_" + s for s in _SLOTS}
                rules["compare"] = "slice_compare"
                rules["func"] = "vp_arr_noop_cleanup"
                rules.update(self.fp_rules)
                out = []
                for label, member in _fp_sites(self):
                    tgt = rules.get(member, "")
                    if tgt:
                        out.append("%s/%s" % (label, tgt))
                ent["val"] = out
        self._fp_val = ent["val"]
        return self._fp_val

    @restrict_fp.setter
    def restrict_fp(self, v):
        pass


OBLIGATIONS = []
KIT = ["vp_nondet.c", "vp_mem.c", "vp_alloc.c", "vp_arriter.c"]
# growing ldb_buffer_t storage lives in static slabs (kit/vp_alloc_c07.c)
KIT_SLAB = ["vp_nondet.c", "vp_mem.c", "vp_alloc_c07.c", "vp_arriter.c"]


def add(name, harness, **kw):
    kw.setdefault("kit", KIT)
    kw.setdefault("timeout", 400)
    kw.setdefault("fp_key", kw.get("defs", {}).get("VP_MODE"))
    OBLIGATIONS.append(AutoObl(name, harness, **kw))


# ------------------------------------------------------------------ b. seek helpers
for n in range(0, 5):
    add("b.seek-helpers-N%d" % n, "C07/seekhelpers.c",
        real=["table/iterator.c", "util/comparator.c", "util/buffer.c", "util/slice.c", "util/strutil.c"],
        defs={"VP_N": n, "VP_KL": 2}, unwind=8,
        functions=["ldb_iter_seek_ge", "ldb_iter_seek_gt", "ldb_iter_seek_le", "ldb_iter_seek_lt", "ldb_iter_compare"],
        desc="ldb_iter_seek_ge/gt/le/lt over a sorted child land exactly on min>=t / min>t / max<=t / max<t of the sorted map (not valid when none: before-first, after-last, empty), from any prior position; ldb_iter_compare sign == reference order",
        bounds="%d keys of 0..2 symbolic bytes, symbolic target of 0..2 bytes, symbolic prior cursor position, symbolic choice of helper" % n)

# ------------------------------------------------------------------ e. db_iter.c
DBITER_REAL = ["table/iterator.c", "util/comparator.c", "util/buffer.c", "util/slice.c",
               "util/strutil.c", "dbformat.c"]
DBITER_FUNCS = ["ldb_dbiter_first", "ldb_dbiter_last", "ldb_dbiter_seek", "ldb_dbiter_next", "ldb_dbiter_prev",
                "ldb_dbiter_valid", "ldb_dbiter_key", "ldb_dbiter_value", "ldb_dbiter_status",
                "find_next_user_entry", "find_prev_user_entry", "parse_key", "ldb_pkey_import", "ldb_pkey_export"]


def dbiter_loops(n):
    # entry loops of db_iter.c visit each child entry at most once; the read
    # sampling loop runs once (the period is ~1 MiB, keys are <= 10 bytes)
    return {"find_next_user_entry.0": n + 1, "find_prev_user_entry.0": n + 1,
            "ldb_dbiter_prev.0": n + 1, "parse_key.0": 2,
            # user keys and values are 1 byte: every memcmp/memcpy in the unit is <= 1 byte
            "memcmp.0": 2, "memcpy.0": 2}


for (n, k, tier) in ((1, 2, "quick"), (2, 3, "quick"), (3, 2, "quick"), (3, 3, "quick"), (4, 2, "quick"),
                     (4, 3, "thorough"), (5, 2, "thorough"), (3, 4, "thorough"), (33, 3, "quick")):
    add("e.dbiter-ops-N%d-K%d" % (n, k), "C07/dbiter.c", real=DBITER_REAL, include_real=["db_iter.c"],
        defs={"VP_MODE": 0, "VP_N": n % 10, "VP_K": k, "VP_SEQBITS": 8 if n > 10 else 56}, kit=KIT_SLAB, unwind=11, unwindset=dbiter_loops(n % 10),
        object_bits=10, tier=tier, functions=DBITER_FUNCS,
        desc="db_iter.c over one sorted internal child: after each of K symbolic ops (first/last/seek(sym)/next/prev) valid/key/value == sorted-map cursor over the 'newest entry with seq<=S per user key, visible iff value' fold; never yields seq>S or a deletion; status()==child status; read sampling does not disturb",
        bounds="%d internal entries (1-byte symbolic user keys, symbolic 56-bit seq, symbolic type), symbolic snapshot S, K=%d symbolic ops" % (n, k))
for (n, tier) in ((2, "quick"), (3, "quick"), (4, "quick"), (5, "thorough")):
    add("e.dbiter-scan-N%d" % n, "C07/dbiter.c", real=DBITER_REAL, include_real=["db_iter.c"],
        defs={"VP_MODE": 1, "VP_N": n}, kit=KIT_SLAB, unwind=11, unwindset=dbiter_loops(n),
        object_bits=10, tier=tier, functions=DBITER_FUNCS,
        desc="db_iter.c full forward scan (first,next*) and full backward scan (last,prev*) both yield exactly the visible entries of the fold, each once, in order / reverse order; forward and backward agree",
        bounds="%d internal entries (1-byte symbolic user keys, symbolic seq/type), symbolic snapshot S" % n)

# ------------------------------------------------------------------ c. merger.c
MERGER_REAL = ["table/iterator.c", "util/comparator.c", "util/buffer.c", "util/slice.c", "util/strutil.c"]
MERGER_FUNCS = ["ldb_mergeiter_first", "ldb_mergeiter_last", "ldb_mergeiter_seek", "ldb_mergeiter_next",
                "ldb_mergeiter_prev", "ldb_mergeiter_find_smallest", "ldb_mergeiter_find_largest",
                "ldb_mergeiter_key", "ldb_mergeiter_value", "ldb_mergeiter_status", "ldb_mergeiter_create",
                "ldb_wrapiter_update"]
for (sizes, k, tier) in (((2, 2), 3, "quick"), ((1, 2), 3, "quick"), ((0, 2), 3, "quick"), ((2, 1), 4, "quick"),
                         ((1, 1, 1), 3, "quick"), ((3, 2), 3, "quick"),
                         ((2, 2), 4, "thorough"), ((3, 3), 3, "thorough"), ((2, 2, 2), 3, "thorough"), ((3, 2), 4, "thorough")):
    total = sum(sizes)
    d = {"VP_MODE": 0, "VP_K": k, "VP_N0": sizes[0], "VP_N1": sizes[1]}
    if len(sizes) > 2:
        d["VP_N2"] = sizes[2]
    d["VP_ALLOC_WRAPITERS"] = len(sizes)
    add("c.merger-ops-%s-K%d" % ("x".join(str(x) for x in sizes), k), "C07/merger.c", real=MERGER_REAL, kit=KIT_SLAB,
        include_real=["table/merger.c"], defs=d, unwind=total + 3, tier=tier, functions=MERGER_FUNCS,
        desc="merger.c over %d sorted children: after each of K symbolic ops (first/last/seek(sym)/next/prev, all direction changes) valid/key/value == sorted-map cursor over the union (keys distinct across children); status()==first non-OK child status" % len(sizes),
        bounds="children with %s entries, 1-byte symbolic keys, symbolic child statuses, K=%d symbolic ops" % ("/".join(str(x) for x in sizes), k))
for (sizes, tier) in (((2, 2), "quick"), ((3, 2), "quick"), ((2, 2, 2), "thorough"), ((3, 3), "thorough")):
    total = sum(sizes)
    d = {"VP_MODE": 1, "VP_N0": sizes[0], "VP_N1": sizes[1]}
    if len(sizes) > 2:
        d["VP_N2"] = sizes[2]
    d["VP_ALLOC_WRAPITERS"] = len(sizes)
    add("c.merger-scan-dups-%s" % "x".join(str(x) for x in sizes), "C07/merger.c", real=MERGER_REAL, kit=KIT_SLAB,
        include_real=["table/merger.c"], defs=d, unwind=total + 3, tier=tier, functions=MERGER_FUNCS,
        desc="merger.c with keys possibly repeated across children (LevelDB semantics): full forward and full backward scans yield every entry of every child exactly once, in (reverse) comparator order, ties in (reverse) child order",
        bounds="children with %s entries, 1-byte symbolic keys" % "/".join(str(x) for x in sizes))

# ------------------------------------------------------------------ d. two_level_iterator.c
TWO_REAL = ["table/iterator.c", "util/comparator.c", "util/buffer.c", "util/slice.c", "util/strutil.c"]
TWO_FUNCS = ["ldb_twoiter_first", "ldb_twoiter_last", "ldb_twoiter_seek", "ldb_twoiter_next", "ldb_twoiter_prev",
             "ldb_twoiter_skip_forward", "ldb_twoiter_skip_backward", "ldb_twoiter_init_data_block",
             "ldb_twoiter_set_data_iter", "ldb_twoiter_status", "ldb_twoiter_key", "ldb_twoiter_value", "ldb_twoiter_create"]


def two_defs(sizes, mode, k=None):
    d = {"VP_MODE": mode}
    for i, x in enumerate(sizes):
        d["VP_S%d" % i] = x
    if k is not None:
        d["VP_K"] = k
    return d


def two_loops(sizes):
    nb = len(sizes)
    # skip loops open at most every block once; the handle buffer is 1 byte
    return {"ldb_twoiter_skip_forward.0": nb + 2, "ldb_twoiter_skip_backward.0": nb + 2,
            "memcpy.0": 2, "memcmp.0": 2}


for (sizes, k, tier) in (((1, 0, 1), 3, "quick"), ((0, 1, 0), 3, "quick"), ((1, 0), 3, "quick"), ((0, 0, 1), 2, "quick"),
                         ((1, 1), 3, "quick"), ((0, 0), 2, "quick"),
                         ((2, 0, 1), 3, "thorough"), ((1, 0, 0, 1), 3, "thorough"), ((1, 0, 1), 4, "thorough"),
                         ((0, 2, 0), 3, "thorough"), ((2, 2), 3, "thorough")):
    add("d.twolevel-ops-%s-K%d" % ("x".join(str(x) for x in sizes), k), "C07/twolevel.c", real=TWO_REAL, kit=KIT_SLAB,
        include_real=["table/two_level_iterator.c"], defs=two_defs(sizes, 0, k), unwind=sum(sizes) + len(sizes) + 3,
        unwindset=two_loops(sizes), tier=tier, functions=TWO_FUNCS, fp_rules={"block_function": "vp_blockfn"},
        desc="two_level_iterator.c over an index child and per-block children (some EMPTY, status symbolic = some FAILING): after each of K symbolic ops valid/key/value == sorted-map cursor over the union (empty blocks skipped both ways, nothing lost/repeated); exactly the held data iterator alive; status() == index status, else held block status, else first non-OK status of released blocks; a block error is never forgotten",
        bounds="blocks with %s entries, 1-byte symbolic keys/separators, symbolic statuses, K=%d symbolic ops" % ("/".join(str(x) for x in sizes), k))
for (sizes, tier) in (((1, 0, 1), "quick"), ((0, 1, 0, 1), "quick"), ((2, 0, 0, 1), "thorough"), ((2, 2, 2), "thorough")):
    add("d.twolevel-scan-%s" % "x".join(str(x) for x in sizes), "C07/twolevel.c", real=TWO_REAL, kit=KIT_SLAB,
        include_real=["table/two_level_iterator.c"], defs=two_defs(sizes, 1), unwind=sum(sizes) + len(sizes) + 3,
        unwindset=two_loops(sizes), tier=tier, functions=TWO_FUNCS, fp_rules={"block_function": "vp_blockfn"},
        desc="two_level_iterator.c full forward and full backward scans over blocks (some empty, some failing) yield the union of all blocks, each entry once, in order / reverse order, with the status rule holding at every step",
        bounds="blocks with %s entries, 1-byte symbolic keys/separators, symbolic statuses" % "/".join(str(x) for x in sizes))

# ------------------------------------------------------------------ a. block.c on builder-produced blocks
BLOCK_REAL = ["table/block_builder.c", "table/iterator.c", "util/comparator.c", "util/buffer.c", "util/slice.c",
              "util/strutil.c", "util/array.c"]
BLOCK_KIT = ["vp_nondet.c", "vp_mem.c", "vp_alloc_c07.c", "vp_arriter.c"]  # vp_arriter only for vp_arr_noop_cleanup
BLOCK_FUNCS = ["ldb_blockiter_first", "ldb_blockiter_last", "ldb_blockiter_seek", "ldb_blockiter_next",
               "ldb_blockiter_prev", "parse_next_key", "decode_entry", "seek_to_restart_point", "get_restart_point",
               "ldb_block_init", "ldb_blockiter_create", "ldb_blockgen_add", "ldb_blockgen_finish"]


def block_defs(lens, ri, mode, k=None):
    d = {"VP_MODE": mode, "VP_N": len(lens), "VP_RI": ri, "VP_VL": 1, "VP_SLAB": 64}
    for i, x in enumerate(lens):
        d["VP_L%d" % i] = x
    if k is not None:
        d["VP_K"] = k
    return d


for (lens, ri, k, tier) in (((2, 2), 1, 2, "quick"), ((2, 2), 2, 2, "quick"), ((1, 2, 3), 2, 2, "quick"),
                            ((2, 2, 2), 1, 2, "quick"), ((2, 2, 2), 3, 2, "quick"), ((2,), 1, 2, "quick"),
                            ((2, 2, 2), 2, 2, "thorough"), ((3, 3, 3), 1, 2, "thorough"), ((3, 3, 3), 2, 2, "thorough"),
                            ((3, 3, 3), 3, 2, "thorough"), ((3, 2, 1), 2, 2, "thorough"), ((2, 2, 2), 2, 3, "thorough")):
    add("a.block-ops-L%s-R%d-K%d" % ("".join(str(x) for x in lens), ri, k), "C07/blockiter.c", real=BLOCK_REAL, kit=BLOCK_KIT,
        include_real=["table/block.c"], defs=block_defs(lens, ri, 0, k), unwind=8, tier=tier, functions=BLOCK_FUNCS,
        desc="block.c iterator on a block produced by the real block_builder.c: after each of K symbolic ops (first/last/seek(sym)/next/prev) valid/key/value == sorted-map cursor over the added entries, status OK",
        bounds="%d entries, key lengths %s (symbolic bytes, strictly increasing), 1-byte symbolic values, restart interval %d, symbolic target of 0..3 bytes, K=%d" % (len(lens), "/".join(str(x) for x in lens), ri, k))
for (lens, ri, tier) in (((2, 2, 2), 2, "quick"), ((1, 2, 3), 1, "quick"), ((3, 3, 3), 3, "thorough"), ((3, 3, 3), 2, "thorough")):
    add("a.block-scan-L%s-R%d" % ("".join(str(x) for x in lens), ri), "C07/blockiter.c", real=BLOCK_REAL, kit=BLOCK_KIT,
        include_real=["table/block.c"], defs=block_defs(lens, ri, 1), unwind=8, tier=tier, functions=BLOCK_FUNCS,
        desc="block.c iterator on a builder-produced block: full forward and full backward scans yield exactly the added entries, each once, in order / reverse order",
        bounds="%d entries, key lengths %s, restart interval %d" % (len(lens), "/".join(str(x) for x in lens), ri))

META = {}
