"""C07 -- iterators give a consistent, ordered, complete view in both directions.

One iterator layer per query (DESIGN R4), each driven by a short sequence of
symbolic operations and compared with an independent sorted-map cursor written
in the harness (harness/C07/ref.h).  The layer below the unit is always the
array iterator model kit/vp_arriter.c.

Function-pointer call sites (DESIGN R8) are restricted to the targets the
harness installs.  The site labels (<function>.function_pointer_call.<n>) are
numbered per function in program order, so a source change in the unit would
shift them; they are therefore *derived from the goto binary of the current
working tree* at build time (AutoObl.restrict_fp below): every call through
`->table-><slot>` goes to vp_arr_<slot>, every `->compare` to the bytewise
comparator, the two-level iterator's block_function to the harness' block
function.  CBMC asserts at each site that the pointer really is that target.
"""
import os
import re
import shutil
import subprocess
import sys
import tempfile
import threading

import vp
from vp import Obl

_SLOTS = ("clear", "valid", "first", "last", "seek", "next", "prev", "key", "value", "status")
_fp_lock = threading.Lock()
_fp_cache = {}


def _sh(cmd):
    p = subprocess.run(cmd, stdout=subprocess.PIPE, stderr=subprocess.STDOUT)
    return p.returncode, p.stdout.decode(errors="replace")


def _fp_sites(obl, rules):
    """Build the obligation's goto binary once (private temp dir), let
    goto-instrument label the function-pointer call sites and return
    [(label, member name of the called pointer)]."""
    d = tempfile.mkdtemp(prefix="lcdb-verif-c07fp.", dir="/var/tmp")
    try:
        objs = []
        hdefs = ["-DVP_CBMC"] + ["-D%s=%s" % (k, v) for k, v in sorted(obl.defs.items())]
        srcs = [(os.path.join(vp.SRC, r), []) for r in obl.real]
        srcs += [(os.path.join(vp.HARN, obl.harness), ["-I" + vp.KIT, "-I" + vp.HARN] + hdefs)]
        srcs += [(os.path.join(vp.KIT, k), ["-I" + vp.KIT, "-I" + vp.HARN] + hdefs) for k in obl.kit]
        for i, (s, extra) in enumerate(srcs):
            o = os.path.join(d, "o%d.gb" % i)
            rc, out = _sh(["goto-cc", "-c"] + vp.REAL_CFLAGS + extra + [s, "-o", o])
            if rc != 0:
                raise RuntimeError("C07 fp-site scan: goto-cc failed for %s:\n%s" % (s, out[-2000:]))
            objs.append(o)
        linked = os.path.join(d, "l.gb")
        rc, out = _sh(["goto-cc"] + objs + ["-o", linked])
        if rc != 0:
            raise RuntimeError("C07 fp-site scan: link failed:\n%s" % out[-2000:])
        if obl.replace_calls:
            # same order as lib/vp.py build(): --replace-calls before the restriction
            rep = os.path.join(d, "rep.gb")
            cmd = ["goto-instrument"]
            for rcall in obl.replace_calls:
                cmd += ["--replace-calls", rcall]
            rc, out = _sh(cmd + [linked, rep])
            if rc != 0 or not os.path.exists(rep):
                raise RuntimeError("C07 fp-site scan: --replace-calls failed:\n%s" % out[-2000:])
            linked = rep
        lab = os.path.join(d, "lab.gb")
        # goto-instrument labels the call sites only when it is given at least
        # one restriction: find one site in the unlabelled listing (first
        # pointer call of some function = <function>.function_pointer_call.1)
        rc, out = _sh(["goto-instrument", "--show-goto-functions", linked])
        first = None
        fname = None
        for line in out.splitlines():
            m = re.match(r"^(\S+) /\* .* \*/$", line)
            if m:
                fname = m.group(1)
                continue
            m = re.search(r"CALL (?:\S+ := )?\*.*?([A-Za-z_][A-Za-z_0-9]*)\)\(", line)
            if m and fname and rules.get(m.group(1)):
                first = "%s.function_pointer_call.1/%s" % (fname, rules[m.group(1)])
                break
        if first is None:
            return []
        rc, out = _sh(["goto-instrument", "--restrict-function-pointer", first, linked, lab])
        if rc != 0 or not os.path.exists(lab):
            raise RuntimeError("C07 fp-site scan: labelling failed (%s):\n%s" % (first, out[-2000:]))
        rc, out = _sh(["goto-instrument", "--show-goto-functions", lab])
        sites = []
        for m in re.finditer(r"ASSIGN (\S+\.function_pointer_call\.\d+) := (.*)", out):
            label, rhs = m.group(1), m.group(2).strip()
            mm = re.search(r"([A-Za-z_][A-Za-z_0-9]*)\s*$", rhs)
            sites.append((label, mm.group(1) if mm else ""))
        return sites
    finally:
        shutil.rmtree(d, ignore_errors=True)


class AutoObl(Obl):
    """Obl whose restrict_fp list is derived from the current tree."""

    def __init__(self, *a, **kw):
        self.fp_rules = dict(kw.pop("fp_rules", {}))   # member name -> target ("" = leave unrestricted)
        self.fp_key = kw.pop("fp_key", None)
        self._fp_val = None
        Obl.__init__(self, *a, **kw)

    @property
    def restrict_fp(self):
        if self._fp_val is not None:
            return self._fp_val
        key = (self.harness, tuple(self.real), tuple(self.kit), self.fp_key,
               tuple(self.replace_calls), tuple(sorted(self.fp_rules.items())))
        with _fp_lock:
            ent = _fp_cache.setdefault(key, {"lock": threading.Lock(), "val": None})
        with ent["lock"]:
            if ent["val"] is None:
                rules = {s: "vp_arr_" + s for s in _SLOTS}
                rules["compare"] = "slice_compare"
                rules["func"] = "vp_arr_noop_cleanup"
                rules.update(self.fp_rules)
                out = []
                try:
                    for label, member in _fp_sites(self, rules):
                        tgt = rules.get(member, "")
                        if tgt:
                            out.append("%s/%s" % (label, tgt))
                except Exception as e:  # reported by goto-instrument as a build error of this obligation
                    sys.stderr.write("[C07] %s: %s\n" % (self.name, e))
                    out = ["c07_fp_site_scan_failed.function_pointer_call.1/ldb_free"]
                ent["val"] = out
        self._fp_val = ent["val"]
        return self._fp_val

    @restrict_fp.setter
    def restrict_fp(self, v):
        pass


OBLIGATIONS = []
KIT = ["vp_nondet.c", "vp_mem.c", "vp_alloc.c", "vp_arriter.c"]
# growing ldb_buffer_t storage lives in static slabs (kit/vp_alloc_c07.c)
KIT_SLAB = ["vp_nondet.c", "vp_mem.c", "vp_alloc_c07.c", "vp_arriter.c"]
UTIL_REAL = ["table/iterator.c", "util/comparator.c", "util/buffer.c", "util/slice.c", "util/strutil.c"]

# Operation families.  A = an absolute positioning op (first | last | seek to a
# symbolic target), R = a relative op (next | prev); each letter is one step
# whose operation is chosen symbolically inside the set.  "ARR" therefore
# covers every direction change after every way of positioning, "ARA"/"AA" a
# re-positioning from every reachable state.  "*" = any of the five ops.
A_SET, R_SET, ANY = 7, 24, 31


def fam_defs(fam):
    d = {"VP_K": len(fam)}
    for i, ch in enumerate(fam):
        d["VP_OS%d" % i] = {"A": A_SET, "R": R_SET, "*": ANY}[ch]
    return d


def fam_text(fam):
    return "%d steps %s (A = first|last|seek(symbolic target), R = next|prev, * = any; chosen symbolically per step)" % (
        len(fam), "-".join(fam))


# Multi-step obligations run without CBMC's implicit pointer/bounds checks
# (they triple the formula); the scan obligations of every layer, the seek
# helpers and C18 keep them.  The explicit overflow/shift checks stay on.
NOSTD = ["--no-standard-checks"]


def add(name, harness, **kw):
    kw.setdefault("kit", KIT)
    kw.setdefault("timeout", 900)
    kw.setdefault("fp_key", kw.get("defs", {}).get("VP_MODE"))
    if any(o.name == name for o in OBLIGATIONS):
        return  # already registered (the quick tier lists come first)
    if kw.get("tier") == "thorough":
        kw["timeout"] = 3000
        kw.setdefault("mem_gb", 24)
    OBLIGATIONS.append(AutoObl(name, harness, **kw))


# ------------------------------------------------------------------ b. seek helpers
for n in range(0, 5):
    add("b.seek-helpers-N%d" % n, "C07/seekhelpers.c", real=UTIL_REAL,
        defs={"VP_N": n, "VP_KL": 2}, unwind=8, timeout=300,
        functions=["ldb_iter_seek_ge", "ldb_iter_seek_gt", "ldb_iter_seek_le", "ldb_iter_seek_lt", "ldb_iter_compare"],
        desc="ldb_iter_seek_ge/gt/le/lt over a sorted child land exactly on min>=t / min>t / max<=t / max<t of the sorted map (not valid when none: before-first, after-last, empty), from any prior position; ldb_iter_compare sign == reference order",
        bounds="%d keys of 0..2 symbolic bytes, symbolic target of 0..2 bytes, symbolic prior cursor position, symbolic choice of helper" % n)

# ------------------------------------------------------------------ e. db_iter.c
DBITER_REAL = UTIL_REAL + ["dbformat.c"]
DBITER_FUNCS = ["ldb_dbiter_first", "ldb_dbiter_last", "ldb_dbiter_seek", "ldb_dbiter_next", "ldb_dbiter_prev",
                "ldb_dbiter_valid", "ldb_dbiter_key", "ldb_dbiter_value", "ldb_dbiter_status",
                "find_next_user_entry", "find_prev_user_entry", "parse_key", "ldb_pkey_import", "ldb_pkey_export"]


def dbiter_loops(n):
    # entry loops of db_iter.c visit each child entry at most once; the read
    # sampling loop runs once (the period is 1 MiB, keys are <= 10 bytes)
    return {"find_next_user_entry.0": n + 1, "find_prev_user_entry.0": n + 1,
            "ldb_dbiter_prev.0": n + 1, "parse_key.0": 2,
            # user keys and values are 1 byte: every memcmp/memcpy in the unit is <= 1 byte
            "memcmp.0": 2, "memcpy.0": 2}


for (n, fam, tier) in ((1, "**", "quick"), (2, "***", "quick"), (3, "ARR", "quick"), (3, "ARA", "quick"), (3, "AA", "quick"),
                       (4, "ARR", "quick"),
                       (3, "***", "thorough"), (4, "ARA", "thorough"), (5, "ARR", "thorough"), (3, "ARRR", "thorough")):
    d = {"VP_MODE": 0, "VP_N": n}
    d.update(fam_defs(fam))
    add("e.dbiter-ops-N%d-%s" % (n, fam.replace("*", "x")), "C07/dbiter.c", real=DBITER_REAL, include_real=["db_iter.c"],
        defs=d, kit=KIT_SLAB, unwind=11, unwindset=dbiter_loops(n), object_bits=10, tier=tier, flags=NOSTD,
        functions=DBITER_FUNCS,
        desc="db_iter.c over one sorted internal child: after every step valid/key/value == sorted-map cursor over the 'newest entry with seq<=S per user key, visible iff value' fold; never yields seq>S or a deletion; status()==child status; read sampling does not disturb",
        bounds="%d internal entries (1-byte symbolic user keys, symbolic 56-bit seq, symbolic type), symbolic snapshot S, %s" % (n, fam_text(fam)))
for (n, tier) in ((2, "quick"), (3, "quick"), (4, "thorough"), (5, "thorough")):
    add("e.dbiter-scan-N%d" % n, "C07/dbiter.c", real=DBITER_REAL, include_real=["db_iter.c"],
        defs={"VP_MODE": 1, "VP_N": n}, kit=KIT_SLAB, unwind=11, unwindset=dbiter_loops(n),
        object_bits=10, tier=tier, functions=DBITER_FUNCS,
        desc="db_iter.c full forward scan (first,next*) and full backward scan (last,prev*) both yield exactly the visible entries of the fold, each once, in order / reverse order; forward and backward agree",
        bounds="%d internal entries (1-byte symbolic user keys, symbolic seq/type), symbolic snapshot S" % n)
# "trim an oversized saved_value" branch of find_prev_user_entry (ldb_buffer_reinit when
# saved_value.alloc > value.size + 1 MiB): reached by state injection, not by megabyte values
for n in (2, 3):
    d = {"VP_MODE": 0, "VP_N": n, "VP_TRIM": 1, "VP_K": 3,
         "VP_OS0": (1 << 1) | (1 << 2),   # last | seek(symbolic)
         "VP_OS1": 1 << 4,                # prev
         "VP_OS2": R_SET}                 # prev | next (turn-around)
    add("e.dbiter-trim-N%d" % n, "C07/dbiter.c", real=DBITER_REAL, include_real=["db_iter.c"],
        defs=d, kit=KIT_SLAB, unwind=11, unwindset=dbiter_loops(n), object_bits=10, tier="quick", flags=NOSTD,
        functions=DBITER_FUNCS + ["ldb_buffer_reinit", "clear_saved_value"],
        desc="db_iter.c with an oversized saved_value buffer (saved_value.alloc injected = 2 MiB after positioning with last/seek): prev() then prev()/next() still yield the entry the fold dictates with its VALUE bytes and length (trim happens before the copies), status == child status",
        bounds="%d internal entries (1-byte symbolic user keys, symbolic 56-bit seq, symbolic type), symbolic snapshot S; steps (last|seek(sym)) - inject alloc=2MiB - prev - (prev|next)" % n)

# ------------------------------------------------------------------ c. merger.c
MERGER_FUNCS = ["ldb_mergeiter_first", "ldb_mergeiter_last", "ldb_mergeiter_seek", "ldb_mergeiter_next",
                "ldb_mergeiter_prev", "ldb_mergeiter_find_smallest", "ldb_mergeiter_find_largest",
                "ldb_mergeiter_key", "ldb_mergeiter_value", "ldb_mergeiter_status", "ldb_mergeiter_create",
                "ldb_wrapiter_update"]


def interleavings(sizes):
    """all distinct orders of the multiset {child c repeated sizes[c] times}, as digit strings (1-based)"""
    out = []

    def rec(prefix, left):
        if not any(left):
            out.append(prefix)
            return
        for c in range(len(left)):
            if left[c]:
                l2 = list(left)
                l2[c] -= 1
                rec(prefix + str(c + 1), l2)
    rec("", list(sizes))
    return out


def merger_defs(sizes, mode):
    d = {"VP_MODE": mode, "VP_N0": sizes[0], "VP_N1": sizes[1], "VP_ALLOC_WRAPITERS": len(sizes)}
    if len(sizes) > 2:
        d["VP_N2"] = sizes[2]
    return d


def add_merger(sizes, perm, fam, tier):
    d = merger_defs(sizes, 0)
    d.update(fam_defs(fam))
    sz = "x".join(str(x) for x in sizes)
    if perm:
        d["VP_PERM"] = perm
        name = "c.merger-ops-%s-P%s-%s" % (sz, perm, fam.replace("*", "x"))
        keys = "concrete interleaving %s of the children (digit = owner of the next larger key), symbolic seek targets below/on/between/above every key" % perm
    else:
        name = "c.merger-ops-%s-symkeys-%s" % (sz, fam.replace("*", "x"))
        keys = "1-byte symbolic keys (distinct across children)"
    add(name, "C07/merger.c", real=UTIL_REAL, kit=KIT_SLAB, include_real=["table/merger.c"], defs=d,
        unwind=sum(sizes) + 3, tier=tier, flags=NOSTD, functions=MERGER_FUNCS,
        desc="merger.c over %d sorted children: after every step (all direction changes) valid/key/value == sorted-map cursor over the union (keys distinct across children); status()==first non-OK child status in child order" % len(sizes),
        bounds="children with %s entries, %s, symbolic child statuses, %s" % ("/".join(str(x) for x in sizes), keys, fam_text(fam)))


for perm in ("1212", "2112", "1122", "2211"):
    add_merger((2, 2), perm, "ARR", "quick")
for perm in ("1212", "2112"):
    add_merger((2, 2), perm, "ARA", "quick")
for perm in interleavings((2, 2)):
    add_merger((2, 2), perm, "ARR", "thorough")
    add_merger((2, 2), perm, "ARA", "thorough")
add_merger((2, 2), "1212", "ARAR", "quick")
add_merger((1, 1, 1), "213", "ARR", "quick")
add_merger((1, 2), None, "AR", "quick")
add_merger((1, 2), None, "ARR", "thorough")
add_merger((0, 2), "22", "ARR", "quick")
for perm in ("11122", "12121", "22111", "12112"):
    add_merger((3, 2), perm, "ARR", "thorough")
for perm in ("1212", "2112"):
    add_merger((2, 2), perm, "ARRR", "thorough")
add_merger((2, 2), "1212", "***", "thorough")
for perm in ("123", "321"):
    add_merger((1, 1, 1), perm, "ARR", "thorough")
add_merger((2, 2, 2), "123123", "ARR", "thorough")
add_merger((2, 2), None, "AR", "thorough")
for (sizes, tier) in (((1, 1), "quick"), ((1, 2), "thorough"), ((2, 2), "thorough"), ((3, 2), "thorough")):
    add("c.merger-scan-dups-%s" % "x".join(str(x) for x in sizes), "C07/merger.c", real=UTIL_REAL, kit=KIT_SLAB,
        include_real=["table/merger.c"], defs=merger_defs(sizes, 1), unwind=sum(sizes) + 3, tier=tier,
        flags=NOSTD if tier == "quick" else [], functions=MERGER_FUNCS,
        desc="merger.c with keys possibly repeated across children (LevelDB semantics): full forward and full backward scans yield every entry of every child exactly once, in (reverse) comparator order, ties in (reverse) child order",
        bounds="children with %s entries, 1-byte symbolic keys" % "/".join(str(x) for x in sizes))

# ------------------------------------------------------------------ d. two_level_iterator.c
TWO_FUNCS = ["ldb_twoiter_first", "ldb_twoiter_last", "ldb_twoiter_seek", "ldb_twoiter_next", "ldb_twoiter_prev",
             "ldb_twoiter_skip_forward", "ldb_twoiter_skip_backward", "ldb_twoiter_init_data_block",
             "ldb_twoiter_set_data_iter", "ldb_twoiter_status", "ldb_twoiter_key", "ldb_twoiter_value", "ldb_twoiter_create"]


def two_defs(sizes, mode):
    d = {"VP_MODE": mode, "VP_ARR_MAXN": 4}
    for i, x in enumerate(sizes):
        d["VP_S%d" % i] = x
    return d


def two_loops(sizes):
    nb = len(sizes)
    m = max(list(sizes) + [nb]) + 1
    # a skip loop opens every block at most once; the handle buffer is 1 byte
    return {"ldb_twoiter_skip_forward.0": nb + 2, "ldb_twoiter_skip_backward.0": nb + 2,
            "memcpy.0": 2, "memcmp.0": 2, "vp_arr_key.0": m, "vp_arr_value.0": m}


for (sizes, fam, tier) in (((1, 0), "ARR", "quick"), ((0, 1), "ARR", "quick"), ((1, 1), "ARR", "quick"),
                           ((1, 0, 1), "AR", "quick"), ((1, 0, 1), "AA", "quick"), ((0, 1, 0), "AR", "quick"),
                           ((0, 0), "AA", "quick"), ((0, 0, 1), "AR", "quick"), ((0, 2), "AR", "quick"),
                           ((1, 0, 1), "ARR", "thorough"), ((0, 1, 0), "ARR", "thorough"), ((2, 0, 1), "ARR", "thorough"),
                           ((1, 0, 0, 1), "AR", "thorough"), ((1, 0, 1), "ARA", "thorough"), ((2, 2), "ARR", "thorough"),
                           ((1, 0), "***", "thorough")):
    d = two_defs(sizes, 0)
    d.update(fam_defs(fam))
    # table/iterator.c's ldb_iter_destroy (cleanup list walk + two free()s per data
    # iterator) is below the unit: modelled by vp_arr_iter_destroy (clear() only)
    d["VP_MODEL_DESTROY"] = 1
    add("d.twolevel-ops-%s-%s" % ("x".join(str(x) for x in sizes), fam.replace("*", "x")), "C07/twolevel.c",
        real=UTIL_REAL, kit=KIT_SLAB, include_real=["table/two_level_iterator.c"], defs=d,
        unwind=sum(sizes) + len(sizes) + 3, unwindset=two_loops(sizes), tier=tier, flags=NOSTD,
        functions=TWO_FUNCS, fp_rules={"block_function": "vp_blockfn"},
        desc="two_level_iterator.c over an index child and per-block children (some EMPTY, status symbolic = some FAILING): after every step valid/key/value == sorted-map cursor over the union (empty blocks skipped both ways, nothing lost/repeated); exactly the held data iterator alive; status() == index status, else held block status, else first non-OK status of released blocks; a block error is never forgotten",
        bounds="blocks with %s entries (concrete keys: the unit never compares keys), symbolic seek targets below/on/between/above every key and separator, symbolic index and block statuses, %s" % ("/".join(str(x) for x in sizes), fam_text(fam)))
for (sizes, symkeys, tier) in (((2, 0, 2), 0, "quick"), ((0, 2, 0, 1), 0, "quick"), ((1, 0), 1, "quick"), ((1, 0, 1), 0, "thorough"), ((1, 0, 1), 1, "thorough"),
                               ((2, 0, 0, 1), 0, "thorough")):
    d = two_defs(sizes, 1)
    d["VP_SYMKEYS"] = symkeys
    add("d.twolevel-scan-%s%s" % ("x".join(str(x) for x in sizes), "-symkeys" if symkeys else ""), "C07/twolevel.c",
        real=UTIL_REAL, kit=KIT_SLAB, include_real=["table/two_level_iterator.c"], defs=d,
        unwind=sum(sizes) + len(sizes) + 3, unwindset=two_loops(sizes), tier=tier,
        functions=TWO_FUNCS, fp_rules={"block_function": "vp_blockfn"},
        desc="two_level_iterator.c full forward and full backward scans over blocks (some empty, some failing) yield the union of all blocks, each entry once, in order / reverse order, with the status rule holding at every step (real ldb_iter_destroy, CBMC pointer checks on)",
        bounds="blocks with %s entries, %s keys/separators, symbolic statuses" % ("/".join(str(x) for x in sizes), "1-byte symbolic" if symkeys else "concrete"))

# ------------------------------------------------------------------ a. block.c on builder-produced blocks
BLOCK_REAL = ["table/block_builder.c"] + UTIL_REAL + ["util/array.c"]
BLOCK_FUNCS = ["ldb_blockiter_first", "ldb_blockiter_last", "ldb_blockiter_seek", "ldb_blockiter_next",
               "ldb_blockiter_prev", "parse_next_key", "decode_entry", "seek_to_restart_point", "get_restart_point",
               "ldb_block_init", "ldb_blockiter_create", "ldb_blockgen_add", "ldb_blockgen_finish"]


def block_defs(lens, ri, mode, keyset=0):
    d = {"VP_MODE": mode, "VP_N": len(lens), "VP_RI": ri, "VP_VL": 1, "VP_SLAB": 64, "VP_KEYSET": keyset}
    if not keyset:
        for i, x in enumerate(lens):
            d["VP_L%d" % i] = x
    return d


def block_loops(n, ri):
    restarts = (n + ri - 1) // ri
    # entry loops visit every entry / restart point at most once; keys, values and
    # targets are <= 3 bytes; the global bound 6 covers the 5-step varint loops
    return {"ldb_blockiter_seek.0": restarts + 1, "ldb_blockiter_seek.1": n + 2, "ldb_blockiter_prev.0": restarts + 2,
            "ldb_blockiter_prev.1": n + 2, "ldb_blockiter_last.0": n + 2, "parse_next_key.0": restarts + 1,
            "memcpy.0": 5, "memcmp.0": 5}


KEYSETS = {1: ((1, 2, 3), '"a" "ab" "abc"'), 2: ((2, 2, 1), '"aa" "ab" "b"'), 3: ((3, 3, 3), '"abc" "abd" "abe"'),
           4: ((1, 1, 1), '"b" "c" "d"')}


def add_block_ops(keyset, lens, ri, fam, tier):
    if keyset:
        lens = KEYSETS[keyset][0][:len(lens)]
        name = "a.block-ops-S%d-N%d-R%d-%s" % (keyset, len(lens), ri, fam.replace("*", "x"))
        keys = "concrete keys %s (first %d)" % (KEYSETS[keyset][1], len(lens))
    else:
        name = "a.block-ops-L%s-R%d-%s" % ("".join(str(x) for x in lens), ri, fam.replace("*", "x"))
        keys = "key lengths %s, symbolic bytes (strictly increasing: every shared-prefix length)" % "/".join(str(x) for x in lens)
    d = block_defs(lens, ri, 0, keyset)
    d.update(fam_defs(fam))
    add(name, "C07/blockiter.c", real=BLOCK_REAL, kit=KIT_SLAB, include_real=["table/block.c"], defs=d,
        unwind=6, unwindset=block_loops(len(lens), ri), object_bits=10, tier=tier, flags=NOSTD, functions=BLOCK_FUNCS,
        desc="block.c iterator on a block produced by the real block_builder.c: after every step valid/key/value == sorted-map cursor over the added entries, status OK",
        bounds="%d entries, %s, 1-byte symbolic values, restart interval %d, symbolic seek target of 0..3 bytes, %s" % (len(lens), keys, ri, fam_text(fam)))


for (keyset, n, ri, fam) in ((1, 3, 2, "AR"), (2, 3, 1, "AR"), (3, 3, 3, "AR"), (4, 2, 1, "AA"), (2, 2, 2, "AA"), (3, 2, 1, "AR")):
    add_block_ops(keyset, (0,) * n, ri, fam, "quick")
for (keyset, ri) in ((1, 1), (1, 3), (2, 2), (3, 1), (3, 2), (4, 3)):
    add_block_ops(keyset, (0, 0, 0), ri, "**", "thorough")
for (keyset, ri) in ((4, 2), (2, 2)):
    add_block_ops(keyset, (0, 0, 0), ri, "AA", "thorough")
for (lens, ri, fam) in (((2, 2), 1, "**"), ((2,), 1, "**"), ((1, 2, 3), 2, "AR"), ((2, 2, 2), 1, "AR")):
    add_block_ops(0, lens, ri, fam, "thorough")
for (keyset, lens, ri, tier) in ((1, (0, 0, 0), 1, "quick"), (3, (0, 0, 0), 2, "quick"), (2, (0, 0, 0), 3, "quick"),
                                 (0, (2, 2), 1, "thorough"), (0, (2, 2), 2, "thorough")):
    if keyset:
        lens = KEYSETS[keyset][0][:len(lens)]
        name = "a.block-scan-S%d-N%d-R%d" % (keyset, len(lens), ri)
        keys = "concrete keys %s" % KEYSETS[keyset][1]
    else:
        name = "a.block-scan-L%s-R%d" % ("".join(str(x) for x in lens), ri)
        keys = "key lengths %s, symbolic bytes" % "/".join(str(x) for x in lens)
    add(name, "C07/blockiter.c", real=BLOCK_REAL, kit=KIT_SLAB, include_real=["table/block.c"],
        defs=block_defs(lens, ri, 1, keyset), unwind=6, unwindset=block_loops(len(lens), ri), object_bits=10,
        tier=tier, functions=BLOCK_FUNCS,
        desc="block.c iterator on a builder-produced block: full forward and full backward scans yield exactly the added entries, each once, in order / reverse order (CBMC pointer checks on)",
        bounds="%d entries, %s, 1-byte symbolic values, restart interval %d" % (len(lens), keys, ri))

# g: the children handed to the merging iterator cover every level of the version (real ldb_version_add_iterators)
from obl.vset_common import add_iterators_obls
OBLIGATIONS += add_iterators_obls("g")

# f: an iterator pins memtable, immutable memtable and version for its lifetime (real ldb_internal_iterator / cleanup)
from obl.dbimpl_readers import reader_obls, ITER
OBLIGATIONS += [o for o in reader_obls("f", fns=(ITER,)) if o.tier == "quick"][:3]

META = {
    "level": "model_checking",
    "level_text": "Bounded model checking (CBMC 6.11) of lcdb's own iterator code, one layer per query: table/block.c (on blocks built by the real table/block_builder.c), the ldb_iter_seek_ge/gt/le/lt helpers of table/iterator.c, table/merger.c, table/two_level_iterator.c and db_iter.c, each over the array-iterator model kit/vp_arriter.c.  After every step of a short sequence of symbolically chosen operations (first/last/seek to a symbolic target/next/prev) validity, key, value and status are compared with an independent sorted-map cursor written in the harness (harness/C07/ref.h: positions defined as min/max over the entry set), for db_iter.c over the 'newest entry with sequence <= snapshot per user key, visible iff it is a value' fold; full forward and backward scans are separate obligations.  Counterexamples are replayed natively (gcc, ASan+UBSan) on the real code.",
    "level_note": "Trusted: CBMC's semantics of the goto-cc translation; the kit models (vp_arriter child iterator; vp_alloc_c07: allocation never fails, growing buffers live in fixed static slabs so an overrun inside a slab is invisible to CBMC; byte-loop mem*; constant read-sampling period in place of util/random.c; vp_arr_iter_destroy in place of table/iterator.c's ldb_iter_destroy in the two-level multi-step queries); the function-pointer restriction (checked by CBMC at every call site); the composition argument that the layers, each correct against the sorted-map cursor over arbitrary well-formed children, compose to a correct DB iterator (not solver-checked: no query contains two real layers).  The multi-step obligations run with --no-standard-checks (CBMC's implicit pointer/bounds checks off, explicit overflow/shift checks on); the scan obligations, the seek helpers and property C18 keep them.  Sub-item f of DESIGN section 6 (ldb_internal_iterator pins memtables/version under the mutex; later writes, compactions and file deletions do not disturb a live iterator) is NOT covered here.",
    "bounds": [
        "b. seek helpers: 0..4 keys of 0..2 symbolic bytes, symbolic target (0..2 bytes), symbolic prior position, all four helpers",
        "e. db_iter.c: 1..4 internal entries (quick; 5 thorough), 1-byte symbolic user keys, symbolic 56-bit sequence numbers and types, symbolic snapshot; 2-3 steps (4 thorough) per family A-R-R / A-R-A / A-A / any-any(-any) where A = first|last|seek(symbolic), R = next|prev; full scans 2..4 entries",
        "c. merger.c: 2 children x <=2 entries in every interleaving (quick; 3x2 and 3 children thorough), concrete key ranks per interleaving (the unit only compares keys) plus one query with symbolic 1-byte keys; symbolic child statuses; 3 steps A-R-R / A-R-A (4 steps and any-any-any thorough); duplicate keys across children only for full scans",
        "d. two_level_iterator.c: 2-3 blocks (4 in scans/thorough) of 0..1 entries (2 thorough), every block and the index with symbolic status, empty blocks at the start / middle / end / everywhere; concrete keys (the unit never compares keys; one scan query with symbolic keys), symbolic seek targets; 2-3 steps",
        "a. block.c: 1..3 entries, key lengths 1..3 (symbolic bytes, all shared-prefix lengths), 1-byte symbolic values, restart interval 1..3, symbolic seek target of 0..3 bytes, 2 steps (3 thorough); full scans",
    ],
    "outside": [
        "more than one real iterator layer per query (composition is prose)",
        "pinning of memtables/versions/files by a live iterator (DESIGN 6 C07.f), iterators during concurrent writes/compactions",
        "comparators other than bytewise / the internal-key order over bytewise",
        "operation sequences longer than 4; R-A-R patterns only inside the any-any-any obligations",
        "merger direction changes on keys duplicated across children (LevelDB itself skips the duplicates there)",
        "corrupted blocks (property C18), keys/values longer than 3 bytes, more than 3 entries per block, 5 entries per db-iter child",
    ],
    "models": [
        "kit/vp_arriter.c: child iterator over a sorted array (real ldb_itertbl_t v-table), contract checks on REQUIRES: valid()",
        "kit/vp_alloc_c07.c: ldb_malloc never fails; ldb_realloc grows in place inside static 32/64-byte slabs; typed static array for merger's wrapper array",
        "kit/vp_mem.c byte-loop memcpy/memcmp/memset; kit/vp_nondet.c symbolic inputs",
        "harness stubs: ldb_record_read_sample (counter), ldb_rand_init/ldb_rand_uniform (constant period n/2) for db_iter.c",
        "vp_arr_iter_destroy replaces ldb_iter_destroy (table/iterator.c) in the two-level multi-step queries; the two-level scan queries use the real one",
    ],
    "assumptions": [
        "children are sorted strictly by their comparator; internal children have unique (user key, sequence) pairs",
        "table invariants for the two-level iterator: keys of block j are <= separator j and > separator j-1, separators strictly increasing",
        "keys given to the block builder are strictly increasing (its documented REQUIRES)",
        "next()/prev() are only called while the iterator is valid (documented REQUIRES)",
    ],
    "explanation": "Each obligation is one CBMC query over the goto-cc translation of the real unit for one concrete size tuple; 'holds' means for every value of the symbolic inputs inside the stated bounds.",
}
