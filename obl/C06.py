from vp import Obl
from obl.dbimpl_readers import snaplist_obls, reader_obls, GET, SNAPSHOT, RELEASE, ITER
from obl.dbimpl_common import write_obls

# a: the snapshot list itself; c: reads are filtered by the snapshot, snapshots
# are taken / released under the mutex (db_impl monitor family, read side)
OBLIGATIONS = snaplist_obls("a") + reader_obls("c", fns=(GET, SNAPSHOT, RELEASE, ITER), want=lambda t: not t[2])
# e: a snapshot's sequence never covers a batch that is not yet completely in the
# memtable (otherwise the view would change under the snapshot while the write
# finishes): the writer publishes last_sequence only after the insert (real ldb_write)
OBLIGATIONS += write_obls("e", quick=((0, 0, 0, -1), (0, 1, 0, -1)), thorough=((1, 1, 0, -1),))
for _o in OBLIGATIONS:
    # also in C08's quick tier; keep this property's quick tier short
    if _o.name in ("c.get-snap1-optnull0-has1-klen0-es1", "c.release-snap0-optnull0-has0-klen2-es1"):
        _o.tier = "thorough"

# b: compaction keeps every version a held snapshot can still see (smallest_snapshot = oldest held
# snapshot, read under the mutex; real ldb_do_compaction_work)
from obl.dbimpl_compact import compaction_obls
_c = compaction_obls("b")
OBLIGATIONS += [o for o in _c if o.tier == "quick" and "snaps2" in o.name][:3] + [o for o in _c if o.tier != "quick"][:2]

META = {
    "level": "model_checking",
    "level_text": "Bounded model checking (CBMC) of the real snapshot list (src/snapshot.h, from an arbitrary well-formed sorted list of <=3 nodes) and of the real ldb_get / ldb_has / ldb_snapshot / ldb_release / ldb_iterator / ldb_internal_iterator (db_impl.c #included, real ldb_lkey_init) with monitoring stubs below and an environment that replaces mem, imm, the current version, last_sequence and the other snapshots whenever the calling thread does not hold db->mutex: a read that is given a snapshot searches with exactly that snapshot's sequence (decoded from the lookup-key bytes / the argument of ldb_dbiter_create), a read without one uses last_sequence of its own critical section; ldb_snapshot links a node carrying last_sequence read under the mutex; ldb_release unlinks and frees exactly that node; taking or releasing other snapshots never changes a held node's sequence or position; oldest == minimum.",
    "level_note": "What is decided here is the snapshot MECHANISM in db_impl.c and snapshot.h (C06.a, C06.c), per API call, not whole histories. 'Observes exactly the contents at the moment the snapshot was taken' is composed in prose (DESIGN section 6 C06) from these obligations plus: memtable / version lookups and db_iter.c return the newest entry with sequence <= S (C01.a/b, C07.e), compaction keeps for every user key the newest entry <= S for every S >= oldest snapshot (C01.c / C06.b, which relies on 'oldest is the minimum' proved here), obsolete-file removal keeps every file of a referenced version (C13.a / C06.d; the pinning of the version by a live iterator is proved here as C07.f). Those parts are decided by other properties' obligations and are not re-run here. Trusted: CBMC's semantics of the goto-cc translation, the stubs for memtable / version / merger / db-iter constructors, the environment model (acts only while the mutex is not held by the caller; bounded number of switches / installs). No thread interleaving is executed.",
    "bounds": ["snapshot list: 0..3 held snapshots, symbolic 56-bit sequences (equal sequences allowed), one or two operations (new, delete of any node, new+delete, delete+new)",
               "readers: one API call; 0..2 other snapshots held in the pre-state (symbolic presence) plus <=2 taken and any number released by other threads during the call; imm present or absent (symbolic); <=2 memtable switches, <=3 version installs, imm flush and last_sequence += 0..255 at every point where the caller does not hold the mutex; user keys of 0..3 symbolic bytes; symbolic lookup outcomes (miss / value / tombstone; OK / NOTFOUND / CORRUPTION / IOERR)"],
    "outside": ["the contents seen through the snapshot over whole histories of writes, flushes and compactions (composition argument, see level_note)",
                "user keys longer than 3 bytes (ldb_lkey_init's heap path for keys > 187 bytes is not exercised)",
                "more than 3 held snapshots in the list obligations; real thread schedules",
                "ldb_approximate_sizes, ldb_property, ldb_compact (read the current version under the mutex, not snapshot related)"],
    "models": ["world.h ghost mutex with environment interference at every lock acquisition and release (harness/dbimpl/readers.c env_act)",
               "recording stubs for ldb_memtable_get/ref/unref, ldb_memiter_create, ldb_version_get/ref/unref/update_stats/add_iterators/record_read_sample, ldb_mergeiter_create, ldb_iter_register_cleanup, ldb_dbiter_create, ldb_versions_needs_compaction, ldb_pool_schedule",
               "typed static allocator for snapshot nodes / iterator state, abstract ldb_vector and value buffer in readers.c; vp_alloc.c (malloc never fails) for snaplist.c; vp_mem.c byte loops"],
    "design_ref": "DESIGN.md section 6 C06 (a, c); C06.b/d are decided with C01.c and C13.a",
}
