from obl.vset_common import get_obls
from obl.c01_memtable import memtable_obls
from obl.dbimpl_common import write_obls

# b: ldb_version_get over a symbolic multi-level version satisfying the C14 layout invariant
OBLIGATIONS = memtable_obls("a") + (get_obls("b", 0, ((2, 0, 0, 1, 2, 1), (1, 1, 0, 1, 2, 1), (0, 2, 0, 1, 2, 1), (0, 1, 1, 1, 2, 2), (1, 1, 1, 1, 3, 1))) +
               get_obls("b", 0, ((2, 1, 1, 1, 2, 1), (1, 2, 1, 2, 6, 2), (3, 0, 0, 1, 2, 1), (2, 1, 0, 1, 2, 2)), tier="thorough"))

# w: an acknowledged write is in the log and in the memtable (otherwise a later read cannot
# return it): every member of a commit group that is told OK has its updates in the group record
OBLIGATIONS += write_obls("w", quick=((0, 1, 0, -1),), thorough=((0, 2, 0, 1), (1, 1, 0, -1)))

# c: the compaction drop rule preserves every read at every live snapshot and at the present
# (real ldb_do_compaction_work: shadowed entries and obsolete tombstones only)
from obl.dbimpl_compact import compaction_obls
_c = compaction_obls("c")
OBLIGATIONS += [o for o in _c if o.tier == "quick"][2:] + [o for o in _c if o.tier != "quick"]

# d/e/f: tombstones are dropped only when no deeper level holds the key (real is_base_level_for_key, all levels
# down to 6); a flushed table is placed only where nothing above or at that level overlaps it; compaction never
# moves a newer version of a key below an older one (boundary inputs, level-0 closure)
from obl.vset_more import baselevel_obls, overlap_obls, boundary_obls
_keep = {"base-level-C4-L6x2-Q2", "base-level-C0-L2x2-L3x2-Q3", "base-level-C0-L2x1-L3x1-L4x1-L5x1-L6x1-Q2",
         "pick-level-L0x1-L1x1-L2x1-L3x1", "pick-level-L1x2-L2x1", "overlaps-range-L0-N2", "overlaps-range-L1-N2", "find-file-N3",
         "overlapping-inputs-L0-N3", "pick-seek-C1-L1x3-L2x1-S1", "pick-seek-C4-L4x3-L5x1-L6x1-S2"}
_v = baselevel_obls("d") + overlap_obls("e") + boundary_obls("f")
for _o in _v:
    if _o.tier == "quick" and _o.name.split(".", 1)[1] not in _keep:
        _o.tier = "thorough"
OBLIGATIONS += _v

META = {
    "level": "model_checking",
    "level_text": "Bounded model checking (CBMC) of the real mechanisms that make a read return the latest write, one unit per query against an independent reference: memtable/skiplist lookup (a), ldb_version_get over a symbolic multi-level version (b), the compaction drop rule of ldb_do_compaction_work - for every snapshot >= the oldest held one, reads before and after the compaction agree (c), ldb_compaction_is_base_level_for_key down to level 6 (d), flush placement and overlap helpers (e), boundary inputs / level-0 closure so that a newer version never ends up below an older one (f), and 'an acknowledged write is in the log and the memtable' for commit groups (w).",
    "level_note": "Trusted: CBMC semantics; the layout invariant of C14 is ASSUMED for the version (it is the subject of C14); the table layer is replaced by the contract of ldb_tables_get; sequences and file numbers range over 1..15 (only compared). Whole histories with real files, caches and reopen cycles are not executed: the composition of the per-mechanism obligations is prose (DESIGN section 6 C01).",
    "bounds": ["memtable: <=4 entries, node heights <=3", "compaction: <=5 input entries over 2 user keys, <=2 snapshots", "version_set helpers: <=3 files per level on levels 0..6, user keys 0..15", "<=3 level-0 files, <=2 files in each of two deeper levels, 1-2 entries per file, 1-byte user keys, any snapshot sequence"],
    "outside": ["histories, option configurations, cache eviction, reopen cycles", "block/table/filter/cache layers below ldb_tables_get (C16/C07), whole histories"],
    "models": ["ldb_tables_get contract model", "kit/vp_alloc.c"],
    "design_ref": "DESIGN.md section 6 C01",
}
