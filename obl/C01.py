from obl.vset_common import get_obls
OBLIGATIONS = get_obls("b", 0, ((1, 1, 0, 1, 2, 1), (0, 2, 0, 1, 2, 1), (1, 1, 1, 1, 2, 1)))
META = {"level": "model_checking"}
