"""C05 Recovery always succeeds and yields a coherent, writable database.

Decomposition (DESIGN 6, C05):
  a  what recovery does with what the log reader reports: records dropped by the reader / records without a
     batch header are skipped (not paranoid) or fail the open (paranoid); everything else is replayed in order
     (the reader itself -- torn tail == EOF -- is C15.e)
  c  real ldb_open: recovery is non-destructive until the new MANIFEST state is applied; failures release
     everything (C20.b); success leaves a live memtable and an open current log (writable)
  d  real ldb_recover: counters (last_sequence, file numbers) end above everything recovered; ldb_recover itself
     deletes/renames/truncates nothing; opening again finds the same logs
"""
from vp import Obl
from obl.dbimpl_recover import recover_obls, recover_log_obls, open_obls

OBLIGATIONS = (recover_log_obls("a", quick=(1, 2), thorough=(3,))
               + open_obls("c")
               + recover_obls("d", quick=((1, 1, 1), (3, 2, 0)), thorough=((2, 1, 1), (4, 2, 0))))

# r: the MANIFEST snapshot written at every (non-reusing) open reproduces the whole layout on the
# next open, including the deepest level (real ldb_versions_write_snapshot -> ldb_edit_import -> builder);
# and a reused MANIFEST is appended to at its real size (real ldb_versions_reuse_manifest)
from obl.C14 import replay_obl
from obl.vset_common import reuse_manifest_obls
OBLIGATIONS += [replay_obl(1, 0, 1, 2, l2level=6)] + reuse_manifest_obls("r")

# b: the MANIFEST/CURRENT switch at open is ordered and failure-atomic (real ldb_versions_apply)
from obl.vset_more import apply_obls
OBLIGATIONS += [o for o in apply_obls("b") if "first" in o.name]

META = {
    "level": "model_checking",
    "level_text": "Bounded model checking (CBMC) of the real ldb_open / ldb_recover / ldb_new_db / ldb_recover_log_file / ldb_write_level0_table / ldb_remove_obsolete_files / ldb_maybe_schedule_compaction / ldb_destroy_internal of src/db_impl.c (#included) over a symbolic directory, symbolic MANIFEST counters, a symbolic record source per log and symbolic failures of every env call. Asserted: recovery replays a prefix-closed, ordered selection of each log (everything the reader returns, minus what it reports as dropped), never deletes, renames or truncates anything before the recovery edit is applied, afterwards removes only logs that were replayed completely (or were already obsolete), tables outside the version and the edit, and older MANIFESTs; a successful open ends with a live memtable, an open log named by logfile_number above every replayed log, last_sequence above every recovered sequence and the lock held; a failed open returns the error, leaves *dbptr NULL, releases the lock iff it was taken and closes everything; creating a new database commits CURRENT only after MANIFEST-1 was written, synced and closed. Also: the MANIFEST/CURRENT switch of the real ldb_versions_apply is ordered and failure-atomic, a reused MANIFEST is appended to at its real size, and the snapshot written at open replays to the same layout down to the deepest level.",
    "level_note": "Finding F3 (ldb_recover_log_file swallowed a failure to open a log when paranoid_checks is off; the log was then treated as recovered and deleted by ldb_open) was found by these obligations, is fixed in /repo (dba9c21) and is now asserted by every recover/open obligation. Trusted: CBMC's semantics of the goto-cc translation; the stubs below db_impl.c (log reader as a record source -- that a torn tail reads as a clean EOF and a damaged record is reported and skipped is C15.e; ldb_versions_recover / ldb_versions_apply by contract -- MANIFEST/CURRENT switching is C17/C05.b; table building -- C16); the prose composition 'second open / crash during recovery loses nothing further': until ldb_versions_apply succeeds no file the durable MANIFEST needs has been touched (asserted), so a crash there leaves the same logs to be replayed again; after it the new MANIFEST names the new log and the recovered tables. 'Opening succeeds on every crash image' is NOT decided as a whole-program statement, only these per-unit obligations.",
    "bounds": ["ldb_open: directory of <=2 (quick) / <=3 (thorough) names at recovery and <=2 / 3 at garbage collection, <=2 version tables, <=1 record per log, all options symbolic (create_if_missing, error_if_exists, paranoid_checks, reuse_logs, info_log/block_cache given or not), every env call may fail",
               "ldb_recover: directory of <=3 (quick) / <=4 (thorough) arbitrary distinct names, 62-bit numbers (16-bit for 4 names), <=2 tables, <=1 record per log",
               "ldb_recover_log_file: <=2 (quick) / <=3 (thorough) records, symbolic sizes/sequences/counts, corruption reports before any record and before EOF"],
    "outside": ["whole-program 'open succeeds' on materialised crash images; kill points inside ldb_versions_apply and ldb_set_current_file (C02.d/e, C17)",
                "writes after recovery taking precedence and persisting: decided through the counters (last_sequence above every recovered sequence here; ldb_write starts from it, C04/C08) and C01, not by running a second history",
                "more than 3 names / 3 records"],
    "notes": ["file numbers are unique per file type only: ldb_versions_recover reuses the recorded next-file number for the new MANIFEST, and a level-0 table written while replaying an early log can receive the number of a later, not yet registered log (names differ by suffix; same in LevelDB). The obligations therefore require 'new log number above every replayed log and every recovered table' only for a NEWLY allocated log, not for a reused last log."],
    "models": ["harness/dbimpl/world.h ghost mutex/condvar",
               "harness/dbimpl/recover_world.h (encoded file names, symbolic listings, version-set contracts, record source, abstract batches, lifetime monitors for memtable/files/writer/lock/db object, abstract rb_set64, fault-injecting env)",
               "ldb_array_sort as a compare-exchange network over the real compare_ascending (real quicksort: C03 b.array-sort-*)",
               "vp_mem.c, vp_nondet.c"],
    "assumptions": ["directory entries pairwise distinct; file numbers < 2^62; recovered next_file_number above log_number, prev_log_number and all table numbers",
                    "only this process changes the directory between the two listings of ldb_open (LOCK held)",
                    "record sequences >= 1, < 2^56; counts <= 10^6"],
    "design_ref": "DESIGN.md section 6 C05 (a: recovery side, c, d), C20.b/d, C03.d",
}
