from vp import Obl
from obl.dbimpl_recover import open_obls

OBLIGATIONS = open_obls("c")
META = {"level": "model_checking"}
