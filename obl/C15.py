from vp import Obl

OBLIGATIONS = []

# ---------------------------------------------------------------- a. constants
OBLIGATIONS.append(Obl(
    "a.constants-mask-all-values", "C15/consts.c", kit=["vp_nondet.c"],
    include_real=["util/crc32c.h", "log_format.h", "log_writer.h"], unwind=18,
    functions=["ldb_crc32c_mask", "ldb_crc32c_unmask"],
    desc="block 32768, header 7, type codes 0..4, mask(x)==rotr(x,15)+0xa282ead8, unmask==inverse formula, "
         "unmask(mask(x))==x and mask(unmask(x))==x for every 32-bit x",
    bounds="all 2^32 values", timeout=120, cost=5))

# ------------------------------------------- b. writer arithmetic at real scale
for nm, defs, cost in (("init-1rec", {"VP_NREC": 1, "VP_CREATE": 0}, 200),
                       ("create-1rec", {"VP_NREC": 1, "VP_CREATE": 1}, 200),
                       ("create-2rec", {"VP_NREC": 2, "VP_CREATE": 1}, 600)):
    OBLIGATIONS.append(Obl(
        "b.writer-arith-%s" % nm, "C15/writer_arith.c", real=["log_writer.c"],
        kit=["vp_nondet.c", "vp_alloc.c"], defs=defs, unwind=8,
        functions=["ldb_writer_init", "ldb_writer_create", "ldb_writer_add_record", "emit_physical_record",
                   "init_type_crc", "ldb_writer_destroy"],
        desc="real add_record on the file path, symbolic initial length (uint64) and record length 0..98320: "
             "call log == reference fragmenter (padding iff <7 left, FULL|FIRST MIDDLE* LAST, contiguous payload "
             "slices, header len/type/masked-crc bytes, flush per fragment, block_offset == file length mod 32768)",
        bounds="initial length: any uint64; %d record(s) of symbolic length 0..98320 (<=5 fragments each); "
               "contents not read (uninterpreted checksum)" % defs["VP_NREC"],
        timeout=1800 if defs["VP_NREC"] > 1 else 900, cost=cost,
        tier="thorough" if defs["VP_NREC"] > 1 else "quick"))


# ------------------------------------------------ c / e. byte-exact round trips
BLK = 32768


def log_total(start, lens):
    """file length after appending records of the given lengths to a LevelDB
    log of length start (format arithmetic, independent of lcdb)"""
    pos = start
    for n in lens:
        off = 0
        while True:
            room = BLK - pos % BLK
            if room < 7:
                pos += room
                room = BLK
            frag = min(n - off, room - 7)
            pos += 7 + frag
            off += frag
            if off == n:
                break
    return pos


RT_REAL = ["log_writer.c", "log_reader.c", "util/buffer.c"]
RT_KIT = ["vp_nondet.c", "vp_mem.c", "vp_alloc_lslab.c", "vp_cksum.c"]
RT_FUNCS = ["ldb_writer_init", "ldb_writer_add_record", "emit_physical_record", "ldb_reader_init",
            "ldb_reader_read_record", "read_physical_record", "report_corruption", "report_drop",
            "ldb_buffer_append", "ldb_buffer_set"]


def rt_obl(letter, label, mode, start, lens, tier, timeout=900, pos=None, lenpos=()):
    total = log_total(start, lens)
    tail = total - start
    maxn = max(lens)
    slab = 64 if tail + 1 <= 64 else (128 if tail + 1 <= 128 else 256)
    defs = {"VP_MODE": mode, "VP_START": start, "VP_TOTAL": total, "VP_N1": lens[0],
            "VP_SLAB_SIZE": slab, "VP_SCRATCH": min(slab, max(8, sum(lens)))}
    if len(lens) > 1:
        defs["VP_N2"] = lens[1]
    if len(lens) > 2:
        defs["VP_N3"] = lens[2]
    where = "0" if start == 0 else "32768-%d" % (BLK - start)
    nm = "%s.%s-at%s-len%s" % (letter, label, where, "_".join(str(x) for x in lens))
    if pos is not None:
        defs["VP_POS"] = pos
        nm += "-P%d" % pos
    desc = {0: "writer output == reference encoder byte for byte; reader returns exactly the written records, then EOF, no report",
            1: "file cut at a symbolic length: reader returns exactly the records wholly before the cut, then EOF, no report",
            2: "one arbitrary byte altered in the first block: reader returns exactly the records before the damage "
               "and those of the next intact block (nothing that was not written), and reports a drop",
            3: "reader state after returning record 1 == the position model of readerpos.h"}[mode]
    rr_bound = 3 if mode != 2 else 2 * len(lens) + 2  # damaged block: bad record + orphan fragments
    return Obl(nm, "C15/roundtrip.c", real=RT_REAL, kit=RT_KIT, defs=defs,
               unwind=tail + 2,
               # reader loops: bounds = what a *feasible* run needs (<= 2 fragments per record, one block switch
               # + the EOF read); the unwinding assertions prove that no feasible run needs more
               unwindset={"read_physical_record.0": 3, "ldb_reader_read_record.0": rr_bound,
                          # mode 2: a damaged length field can announce up to the rest of the block
                          "memcpy.0": (max(7, maxn) + 1) if pos not in lenpos else tail,
                          "ldb_crc32c_extend.0": (maxn + 3) if pos not in lenpos else tail},
               restrict_fp=["report_drop.function_pointer_call.1/vp_corruption"],
               functions=RT_FUNCS, tier=tier, timeout=timeout, cost=60 + tail,
               desc=desc,
               bounds="%d record(s) of %s bytes, symbolic contents, appended at file length %s%s" % (
                   len(lens), "/".join(str(x) for x in lens), where,
                   "; cut anywhere in the %d bytes written" % tail if mode == 1 else
                   "; byte %s of the written bytes xor any non-zero mask" % pos if mode == 2 else ""))


C_QUICK = [(0, (0,)), (0, (12, 7)), (BLK - 1, (5, 3)), (BLK - 7, (5, 3)), (BLK - 7, (0,)),
           (BLK - 8, (5, 3)), (BLK - 10, (3, 5))]
C_LENS = [(0,), (1,), (5, 3), (3, 5), (24, 7), (7, 0, 2)]
_seen = set()
for st, lens in C_QUICK:
    _seen.add((st, lens))
    OBLIGATIONS.append(rt_obl("c", "roundtrip", 0, st, lens, "quick"))
for st in [0] + [BLK - k for k in range(1, 15)]:
    for lens in C_LENS:
        if (st, lens) not in _seen:
            OBLIGATIONS.append(rt_obl("c", "roundtrip", 0, st, lens, "thorough", timeout=900))
OBLIGATIONS.append(rt_obl("c", "reader-position-model", 3, 0, (5, 3), "quick"))
OBLIGATIONS.append(rt_obl("c", "reader-position-model", 3, 0, (0, 9, 1), "thorough"))

E_QUICK = [(0, (5, 0, 3)), (BLK - 7, (5, 3)), (BLK - 10, (5, 3))]
for st, lens in E_QUICK:
    OBLIGATIONS.append(rt_obl("e", "truncate", 1, st, lens, "quick"))
for st in [0] + [BLK - k for k in range(1, 15)]:
    for lens in [(5, 3), (0, 4), (12, 1, 2)]:
        if (st, lens) not in E_QUICK:
            OBLIGATIONS.append(rt_obl("e", "truncate", 1, st, lens, "thorough", timeout=900))


# ----------------------------------------------- d. reader on arbitrary bytes
def rd_obl(n, start, tier, timeout=900, fixlen=None, calls=None):
    where = "0" if start == 0 else "32768-%d" % (BLK - start)
    defs = {"VP_N": n, "VP_START": start, "VP_SLAB_SIZE": 64, "VP_SCRATCH": 64}
    name = "d.reader-arbitrary-at%s-N%d" % (where, n)
    pay = n - 7 if fixlen is None else fixlen  # largest payload a header can announce inside the input
    if fixlen is not None:
        defs["VP_FIXLEN"] = fixlen
        name = "d.reader-chain-at%s-N%d-L%d" % (where, n, fixlen)
    if calls is not None:
        defs["VP_CALLS"] = calls
        name += "-C%d" % calls
    return Obl(name, "C15/reader.c",
               real=["log_reader.c", "util/buffer.c"], kit=RT_KIT,
               defs=defs,
               unwind=n + 3,
               # bounds = what the input size allows (payload <= n-7, <= n/7 physical records + a dropped
               # block + EOF per call); with unwind_is_violation a bound that is too small FAILS, never hides
               unwindset={"read_physical_record.0": 3, "ldb_reader_read_record.0": n // 7 + 3,
                          "memcpy.0": max(2, pay + 2), "ldb_crc32c_extend.0": max(3, pay + 3),
                          "vp_cksum_extend.0": max(3, pay + 3),
                          "vp_ref_next.0": max(2, pay + 2), "vp_ref_next.1": max(2, pay + 2), "vp_ref_next.2": n // 7 + 5},
               restrict_fp=["report_drop.function_pointer_call.1/vp_corruption"],
               unwind_is_violation=True,
               functions=["ldb_reader_init", "ldb_reader_read_record", "read_physical_record", "report_corruption",
                          "report_drop", "ldb_buffer_set", "ldb_buffer_append"],
               tier=tier, timeout=timeout, cost=30 + 10 * n,
               desc="reader on arbitrary bytes == reference decoder: same records (count, length, bytes), "
                    "reporter called iff the reference reports (same byte counts, LDB_CORRUPTION), sticky EOF, terminates",
               bounds="%d arbitrary bytes starting at file offset %s%s" % (
                   n, where, "" if fixlen is None else
                   ", except that the length fields of the back-to-back records are fixed to %d" % fixlen) + (
                   "" if calls is None else "; first %d read calls" % calls))


D_QUICK = [(0, 0), (7, 0), (10, 0), (10, BLK - 3), (12, BLK - 9)]
for n, st in D_QUICK:
    OBLIGATIONS.append(rd_obl(n, st, "quick"))
for n in range(0, 25):
    if (n, 0) not in D_QUICK:
        OBLIGATIONS.append(rd_obl(n, 0, "thorough", timeout=1800))
OBLIGATIONS.append(rd_obl(24, 0, "quick", fixlen=1, calls=2))
OBLIGATIONS.append(rd_obl(24, 0, "thorough", timeout=3600, fixlen=1))  # chains of 3 fragments (FIRST, bad/MIDDLE, LAST ...)
OBLIGATIONS.append(rd_obl(32, 0, "thorough", timeout=3600, fixlen=1))
OBLIGATIONS.append(rd_obl(21, BLK - 14, "thorough", timeout=3600))  # FIRST, bad record | LAST in the next block
for k in range(1, 15):
    for n in (8, 12, 16):
        if (n, BLK - k) not in D_QUICK:
            OBLIGATIONS.append(rd_obl(n, BLK - k, "thorough", timeout=1800))


# ------------------------------------------------------------- k. CRC kernel
CRC_FUNCS = ["ldb_crc32c_extend", "crc32c_generic", "round_up"]


def crc_obl(name, mode, tier, defs=None, unwind=40, timeout=600, cost=30, desc="", bounds="", replace=True):
    d = {"VP_MODE": mode}
    d.update(defs or {})
    return Obl(name, "C15/crc.c", kit=["vp_nondet.c"], include_real=["util/crc32c.c"], defs=d,
               unwind=unwind, sat="cadical", tier=tier, timeout=timeout, cost=cost,
               # the data pointer's misalignment is explicit (VP_MIS); see harness/C15/crc.c
               replace_calls=["round_up:vp_round_up"] if replace else [],
               functions=CRC_FUNCS, desc=desc, bounds=bounds)


OBLIGATIONS.append(crc_obl("k.tables-all-entries", 0, "quick", unwind=130,
                           desc="byte_ext_table and stride_ext_table_0..3: every entry == bitwise definition "
                                "(register advanced by 1 resp. 16 zero bytes)", bounds="all 256 entries of the 5 tables"))
OBLIGATIONS.append(crc_obl("k.reference-byte-step", 5, "quick", unwind=10,
                           desc="the byte-wise form of the harness reference == 8 bit-serial CRC division steps",
                           bounds="every 32-bit register value and input byte"))
OBLIGATIONS.append(crc_obl("k.round-up-arith", 4, "quick", unwind=4, replace=False,
                           desc="round_up(p,4|8) is the smallest aligned address >= p and depends only on p mod N "
                                "(justifies the explicit-misalignment model used by the other k obligations)",
                           bounds="every 64-bit address value <= 2^64-16"))
OBLIGATIONS.append(crc_obl("k.standard-vectors", 3, "quick", unwind=60,
                           desc="RFC 3720 B.4 vectors (zeros, ones, ascending, descending, iSCSI PDU), lcdb's self-test "
                                "vector and extend(value(A),B)==value(AB), for the real routine and for the bitwise reference",
                           bounds="7 concrete vectors of 13..48 bytes"))
for ln in range(0, 20):
    for mis in range(0, 4):
        if ln > 16 and mis != 0:
            continue
        OBLIGATIONS.append(crc_obl(
            "k.extend-L%d-M%d" % (ln, mis), 1, "quick" if ln <= 8 else "thorough",
            defs={"VP_LEN": ln, "VP_MIS": mis}, unwind=ln + 12,
            timeout=900 if ln <= 8 else 3600, cost=20 + 8 * ln,
            desc="ldb_crc32c_extend (portable path) == bitwise CRC-32C for fully symbolic data and initial crc",
            bounds="length %d, data pointer %d mod 4, all data and all 2^32 initial values" % (ln, mis)))

W_QUICK = {(20, 0): [0, 4, 16, 19], (37, 1): [0, 3, 19, 35], (70, 3): [1, 17, 48, 69]}
for (ln, mis), poss in sorted(W_QUICK.items()):
    for pos in poss:
        OBLIGATIONS.append(crc_obl(
            "k.window1-L%d-M%d-P%d" % (ln, mis, pos), 2, "quick",
            defs={"VP_LEN": ln, "VP_MIS": mis, "VP_WIN": pos, "VP_WIN_END": pos + 1, "VP_WINSZ": 1},
            unwind=ln + 12, timeout=600, cost=10,
            desc="stride/word/tail paths: ldb_crc32c_extend == bitwise CRC-32C, one arbitrary byte at the given "
                 "position, the other bytes a fixed pattern, fixed initial crc",
            bounds="length %d, pointer %d mod 4, byte %d arbitrary" % (ln, mis, pos)))
for ln in list(range(16, 37)) + [47, 48, 63, 64, 65, 70, 273, 300]:
    mis = ln % 4
    step = 1 if ln <= 70 else 16
    for pos in range(0, ln, step):
        if (ln, mis) in W_QUICK and pos in W_QUICK[(ln, mis)]:
            continue
        OBLIGATIONS.append(crc_obl(
            "k.window1-L%d-M%d-P%d" % (ln, mis, pos), 2, "thorough",
            defs={"VP_LEN": ln, "VP_MIS": mis, "VP_WIN": pos, "VP_WIN_END": pos + 1, "VP_WINSZ": 1},
            unwind=ln + 12, timeout=600, cost=10 + ln // 10,
            desc="stride/word/tail%s paths: ldb_crc32c_extend == bitwise CRC-32C, one arbitrary byte at the given "
                 "position, the other bytes a fixed pattern, fixed initial crc" % ("/prefetch-loop" if ln > 256 else ""),
            bounds="length %d, pointer %d mod 4, byte %d arbitrary" % (ln, mis, pos)))
for pos in (0, 4, 12, 16, 18):
    OBLIGATIONS.append(crc_obl(
        "k.window2-L20-M0-P%d" % pos, 2, "thorough",
        defs={"VP_LEN": 20, "VP_MIS": 0, "VP_WIN": pos, "VP_WIN_END": pos + 1, "VP_WINSZ": 2},
        unwind=32, timeout=1800, cost=120,
        desc="stride path: ldb_crc32c_extend == bitwise CRC-32C, two arbitrary adjacent bytes, rest fixed",
        bounds="length 20, aligned, bytes %d..%d arbitrary" % (pos, pos + 1)))

# alteration / resynchronisation: layouts without trailer or empty fragment in the first block and with the
# last record wholly in the second block
A_QUICK = (0, 4, 7)
for pos in range(0, 8):
    OBLIGATIONS.append(rt_obl("e", "alter1", 2, BLK - 8, (2, 1), "quick" if pos in A_QUICK else "thorough",
                              timeout=900, pos=pos, lenpos=(4, 5)))
for pos in range(0, 20):
    OBLIGATIONS.append(rt_obl("e", "alter1", 2, BLK - 20, (5, 3, 2), "thorough", timeout=1800, pos=pos,
                              lenpos=(4, 5, 16, 17)))

META = {
    "level": "model_checking",
    "level_text": "Bounded model checking (CBMC 6.11) of lcdb's own log_writer.c, log_reader.c and util/crc32c.c "
                  "(goto-cc translation of the working tree): the writer's fragmentation arithmetic at the real 32 KiB "
                  "block size for every initial file length and every record length 0..98320; byte-exact agreement of "
                  "writer output with an independently written LevelDB log encoder and of the reader with an independently "
                  "written decoder (round trips, truncation at every byte, one-byte alteration, arbitrary input bytes) at "
                  "small concrete sizes with symbolic contents; the portable CRC-32C routine against the bit-serial "
                  "definition. Counterexamples are replayed natively (gcc, ASan+UBSan).",
    "level_note": "Trusted: CBMC's C semantics, the kit models, the harness references (logref.h, the bit-serial CRC), "
                  "and the decomposition argument: framing obligations use an abstract streaming checksum in place of "
                  "CRC-32C (the real code reaches the checksum only through ldb_crc32c_extend; C15.k relates that function "
                  "to CRC-32C), and byte-exact obligations are at small sizes while only the arithmetic (C15.b) is at the "
                  "real scale. The SSE4.2 CRC routine selected at run time by ldb_crc32c_init() is NOT verified (inline asm); "
                  "the portable routine is.",
    "explanation": "a: constants and mask/unmask for all 2^32 values. b: real ldb_writer_add_record through recording "
                   "ldb_wfile_append/flush stubs and an uninterpreted checksum, symbolic uint64 initial length and symbolic "
                   "record length 0..98320, compared call by call with a reference fragmenter. c: writer (dst hook) bytes == "
                   "reference encoder, reader (src hook) returns the same records, no report; records placed 1..14 bytes "
                   "before a block end. d: reader on arbitrary bytes == reference reader, call by call, including drop "
                   "reports and calls after the end. e: file cut at a symbolic length -> exactly the records wholly before "
                   "the cut, no report; one altered byte in the first block -> survivors exactly the records before the "
                   "damage and those of the next block, drop reported. k: CRC tables, portable ldb_crc32c_extend == bit-serial "
                   "CRC-32C.",
    "bounds": [
        "a: all 32-bit values",
        "b: initial file length any uint64 (plus the post-state block_offset==32768); 1 record (thorough: 2) of symbolic length 0..98320 (<= 5 fragments); contents not read",
        "c: 1-3 records of concrete lengths 0..24 with symbolic contents, appended at file length 0 or 32768-k, k in 1..14 (quick: 7 combinations)",
        "d: 0..24 arbitrary bytes at file offset 0 (quick: 0,7,10,14) and 8..16 arbitrary bytes straddling the first block boundary; VP_N/7+2 consecutive read calls compared",
        "e: truncation at every length of 2-3 small records (symbolic cut); one altered byte (each position of the first block's part, any xor mask) with the last record wholly in the second block",
        "k: tables: all 256 entries x 5 tables; extend: fully symbolic data and initial crc for lengths 0..8 (thorough: ..19) x 4 pointer misalignments; lengths 16..70, 273, 300: ONE arbitrary byte per query at a fixed position, other bytes a fixed pattern, fixed initial crc (thorough: 2 adjacent bytes at length 20)",
    ],
    "outside": [
        "byte-exact framing for records larger than 24 bytes / files longer than 2 blocks (only the arithmetic is checked at real scale)",
        "the run-time selected SSE4.2 CRC routine (inline asm) and its 3-way block-skip tables",
        "CRC equivalence for more than 2 simultaneously arbitrary bytes on the stride path (lengths >= 20): a 4-byte symbolic window did not finish in 600 s with cadical (XOR-hard); lengths > 300",
        "checksum-valid physical records with the out-of-range type codes 5 and 6: lcdb (like upstream LevelDB: kEof = kMaxRecordType+1, kBadRecord = +2, 'return type') takes type 5 for a silent, non-sticky end of file and type 6 for a silent bad record instead of reporting 'unknown record type'; e.g. the 7-byte file 46 27 fc 95 00 00 05 (valid abstract checksum): a strict reference reports one drop, lcdb none (log_reader.c enum LDB_EOF/LDB_BAD_RECORD, read_physical_record 'return type'). Not producible by the writer, by truncation or by a checksum-detected alteration; the reference decoder models it (logref.h VP_REF_TYPE_ALIAS=1), everything else is strict",
        "alterations the format itself cannot detect and the reader (like LevelDB) handles silently: a changed byte inside a zero trailer; an empty record whose type byte becomes 0 (taken for preallocated zeroes, rest of block skipped without report); a length field in the LAST block of a file enlarged beyond the end (taken for a torn tail); multi-byte alterations that keep the checksum valid",
        "initial_offset != 0 (resynchronising reads), I/O errors from the file layer (C12)",
    ],
    "models": [
        "kit/vp_cksum.c: abstract streaming checksum z=rotl(z,5)^b^K in place of util/crc32c.c for b/c/d/e (b: fully uninterpreted, fresh value per call)",
        "kit/vp_alloc_lslab.c: ldb_malloc=malloc non-null; ldb_realloc=one static slab per buffer (64-256 bytes, request beyond it = broken check); writer/reader buffers are pre-sized by the harness so ldb_buffer_t growth (buffer.c) is not exercised",
        "kit/vp_mem.c byte-loop memcpy/memset/memcmp; kit/vp_nondet.c symbolic inputs",
        "harness/C15/readerpos.h: reader placed at file offset 32768-k of the first block by writing the state the real reader has after consuming [0,pos) (buffer, end_offset, eof, src); formula checked against the real reader by c.reader-position-model",
        "harness/C15/writer_arith.c: ldb_wfile_append/ldb_wfile_flush recorders always return LDB_OK",
        "harness/C15/crc.c: round_up() replaced (goto-instrument --replace-calls) by the same function specialised to the explicit pointer misalignment VP_MIS; round_up's integer arithmetic itself checked for every address by k.round-up-arith; inputs shorter than their distance to 4-byte alignment get 1-3 slack bytes because crc32c_generic forms and compares a pointer past the end of the buffer (crc32c.c 'This might be past the end of the buffer')",
        "harness/C15/reader.c: sprintf stub (message text is ignored by the reader)",
    ],
    "assumptions": [
        "no-collision assumption, made explicit only where a damaged LENGTH field changes the extent the checksum covers (e.alter1 positions 4,5): stored checksum != checksum of the new extent",
        "glibc malloc/static objects are 16-byte aligned in the native replay of k obligations",
    ],
}
