from obl.dbimpl_common import write_obls

OBLIGATIONS = write_obls("a", quick=((0, 0, 0, -1), (0, 1, 0, -1)), thorough=((1, 1, 0, -1),))
try:
    from obl.dbimpl_flushgc import flush_obls, gc_obls
    OBLIGATIONS += flush_obls("b") + gc_obls("b")
except ImportError:
    pass

from obl.c02_build import build_table_obls
OBLIGATIONS += build_table_obls("c")

# f: the POSIX writable file hands every appended byte to write(2) once and in order, flushes before
# fsync, syncs the directory first for MANIFEST files and returns the first error (real env_unix_impl.h over libc stubs)
from obl.envunix_common import wfile_obls
OBLIGATIONS += [o for o in wfile_obls("f")]

# d: MANIFEST switch ordering (real ldb_versions_apply): snapshot + edit written and synced before CURRENT is
# switched and before the version is installed; failure installs nothing and removes the new MANIFEST
from obl.vset_more import apply_obls
OBLIGATIONS += apply_obls("d")

META = {
    "level": "model_checking",
    "level_text": "Bounded model checking (CBMC) of the ordering obligations that make a synced write durable, on the real code of each unit with monitoring stubs at the env boundary: ldb_write returns success for a sync write only after the record was appended AND ldb_wfile_sync on the current log succeeded; a memtable flush hands the MANIFEST an edit naming the current log only after the level-0 table was built, and old logs/tables are unlinked only by the GC pass that runs after a successful MANIFEST apply, by the keep rules of C13; a latched error stops all deletion; ldb_build_table reports success only after add/finish/sync/close/verify all succeeded in that order; ldb_versions_apply writes and syncs snapshot+edit before switching CURRENT and installing the version; the POSIX writable file hands every byte to write(2) once and in order, flushes before fsync and syncs the directory first for MANIFEST files.",
    "level_note": "Trusted: CBMC semantics; the stubs at the env/log/version-set boundary; the prose composition of the per-unit obligations into the crash-model statement (each file keeps its synced prefix, directory operations persist in order). No byte-exact crash image is materialised and recovery of the image is C03/C05/C15.",
    "bounds": ["one API step (write / flush / GC) from an arbitrary state with symbolic env results", "<=5 directory entries, <=3 live tables, <=2 pending outputs in the GC harness"],
    "outside": ["torn sectors inside a synced prefix", "whole histories"],
    "models": ["harness/dbimpl/world.h", "write/flush/gc stubs"],
    "design_ref": "DESIGN.md section 6 C02",
}
