"""db_impl.c monitor family: the REAL ldb_do_compaction_work (harness/dbimpl/compact.c).

compaction_obls(prefix) returns the list of Obl.  One harness decides, on the
same run of the real code, the compaction parts of
  C01.c / C06.b  (drop rule: every view at or above smallest_snapshot unchanged),
  C14.c          (outputs sorted, contiguous, bounds recorded == first/last key),
  C13.c          (output numbers pending before the file exists, fresh, erased by cleanup),
  C02.g          (create -> adds -> finish -> sync -> close -> re-open, errors never installed),
  C09/C12 bits   (broadcast after the imm flush, failed compaction latches bg_error).
want= selects a subset by configuration name (regex) for properties that only
need some of them."""
import re

from vp import Obl

KIT = ["vp_nondet.c", "vp_mem.c", "vp_alloc_d4.c"]
REAL = ["dbformat.c", "util/buffer.c", "util/comparator.c", "util/options.c", "util/slice.c", "table/iterator.c"]
INC_REAL = ["db_impl.c", "util/vector.c"]

FUNCS = ["ldb_do_compaction_work", "ldb_open_compaction_output_file", "ldb_finish_compaction_output_file",
         "ldb_install_compaction_results", "ldb_cleanup_compaction", "ldb_record_background_error",
         "ldb_cstate_create", "ldb_cstate_destroy", "ldb_cstate_top", "ldb_output_create", "ldb_output_destroy",
         "ldb_stats_init", "ldb_stats_add", "ldb_snaplist_empty", "ldb_snaplist_oldest", "ldb_user_comparator",
         "ldb_pkey_import", "ldb_ikey_init", "ldb_ikey_copy", "ldb_ikey_clear", "ldb_buffer_init", "ldb_buffer_set",
         "ldb_buffer_grow", "ldb_buffer_copy", "ldb_buffer_clear", "ldb_vector_init", "ldb_vector_push",
         "ldb_vector_top", "ldb_vector_grow", "ldb_vector_clear", "ldb_iter_create", "ldb_iter_destroy",
         "slice_compare"]

# call sites through function pointers (DESIGN R8); the restriction itself is asserted by CBMC
FP = ["ldb_do_compaction_work.function_pointer_call.1/vp_in_first",
      "ldb_do_compaction_work.function_pointer_call.2/vp_in_valid",
      "ldb_do_compaction_work.function_pointer_call.3/vp_in_key",
      "ldb_do_compaction_work.function_pointer_call.4/slice_compare",
      "ldb_do_compaction_work.function_pointer_call.5/vp_in_value",
      "ldb_do_compaction_work.function_pointer_call.6/vp_in_next",
      "ldb_do_compaction_work.function_pointer_call.7/vp_in_status",
      "ldb_finish_compaction_output_file.function_pointer_call.1/vp_in_status",
      "ldb_finish_compaction_output_file.function_pointer_call.2/vp_in_status",
      "ldb_iter_clear.function_pointer_call.1/vp_in_clear",
      "ldb_iter_clear.function_pointer_call.2/cleanup_iter_state",
      "ldb_iter_clear.function_pointer_call.3/cleanup_iter_state"]

DESC = ("one real ldb_do_compaction_work() + ldb_cleanup_compaction() over a symbolic sorted input, real snapshot list, "
        "symbolic base-level / stop / size oracles: (C01.c/C06.b) for every S >= smallest_snapshot (read by the real code from "
        "the oldest snapshot, else last_sequence) and every key, newest entry <= S over outputs+deeper == over inputs+deeper; "
        "an entry is dropped iff a newer entry of its key is <= smallest_snapshot or it is a tombstone <= smallest_snapshot at "
        "the base level; (C14.c) outputs strictly sorted, contiguous runs cut exactly where the stop oracle / size limit says, "
        "smallest/largest/size/number/level+1 reported to the edit == first/last key added etc.; (C13.c) number in "
        "pending_outputs before the file is created, fresh, increasing, erased by cleanup; (C02.g) every installed output "
        "create->adds->finish->sync->close->re-open all successful and in order, first error returned, nothing installed and "
        "bg_error latched after an error or shutdown; mutex released for iterator/builder/file work, held for numbers, "
        "pending set, statistics, install, and on return")


def _cap(n):
    cap = 1
    while cap < max(n, 1):
        cap = (cap * 3) // 2 + (1 if cap <= 1 else 0)   # growth policy of util/vector.c
    return max(cap, 2)   # (a one-element pointer array makes CBMC's symex crawl)


def _one(prefix, n, snaps=2, faults=1, imm=0, env=1, nofree=0, ptr=1, level=1, exact=1, tier="quick", timeout=600):
    defs = {"VP_N": n, "VP_SNAPS": snaps, "VP_FAULTS": faults, "VP_IMM": imm, "VP_ENV": env,
            "VP_VEC_CAP": _cap(n), "VP_NOFREE": nofree, "VP_LEVEL": level, "VP_EXACT": exact}
    name = "%s.compaction-n%d-snaps%d-faults%d-imm%d-env%d-L%d%s%s" % (
        prefix, n, snaps, faults, imm, env, level, "-nofree" if nofree else "", ("" if ptr else "-noptr") + ("" if exact else "-foldonly"))
    uw = {"memcpy.0": 10, "memcmp.0": 2, "ldb_remove_obsolete_files.0": 1, "ldb_remove_obsolete_files.1": 1,
          "ldb_do_compaction_work.0": n + 1, "ldb_do_compaction_work.1": 2, "ldb_do_compaction_work.2": 3,
          "ldb_do_compaction_work.3": n + 1, "ldb_install_compaction_results.0": n + 1,
          "ldb_cleanup_compaction.0": n + 1, "ldb_cstate_destroy.0": n + 1}
    bounds = ("%d input entries over <=2 symbolic 1-byte user keys, symbolic 56-bit sequences (strictly decreasing per key), "
              "symbolic types, 1-byte symbolic values; 0..%d held snapshots (symbolic, sorted, <= last_sequence); symbolic "
              "deeper-data bit + conservative base-level answer per key; symbolic stop-before answer per entry and size-limit "
              "hit per add; %s; %s; %s; compaction level %d; final output sizes 1..256 in disjoint bit fields; %s"
              % (n, snaps,
                 "every builder/file/iterator/install call may fail, the input iterator may fail and stop at any position, shutdown at any position" if faults else "no I/O errors, no shutdown",
                 "an immutable memtable appears at a symbolic position: the real ldb_compact_memtable / ldb_write_level0_table / ldb_remove_obsolete_files run inside the loop over stubs (flush fails or writes no table, empty directory listing)" if imm else "no immutable memtable",
                 "other threads publish sequences at every lock/unlock and release/take snapshots at the first unlock" if env else "no interference",
                 level,
                 "CBMC pointer checks on" if ptr else "CBMC pointer checks off (functional assertions, bounds and overflow checks only); ldb_free is a no-op"))
    return Obl(name, "dbimpl/compact.c", real=REAL, include_real=INC_REAL, kit=KIT, defs=defs,
               unwind=max(n + 3, 10), unwindset=uw, restrict_fp=FP,
               tier=tier, timeout=timeout, functions=FUNCS,
               flags=["--slice-formula"] + ([] if ptr else ["--no-pointer-check", "--no-pointer-primitive-check"]),
               no_flags=[] if ptr else ["--pointer-overflow-check"],
               desc=DESC, bounds=bounds)


# (n, snaps, faults, imm, env, nofree, ptr, level, tier[, exact])
CONFIGS = (
    (0, 1, 1, 0, 1, 0, 1, 0, "quick"),
    (1, 2, 1, 0, 1, 0, 1, 5, "quick"),
    (2, 2, 1, 0, 1, 0, 1, 1, "quick"),
    (2, 1, 1, 1, 1, 0, 1, 2, "quick"),
    (3, 2, 0, 0, 1, 0, 1, 3, "quick"),
    (3, 2, 1, 0, 1, 1, 0, 0, "quick"),
    (4, 2, 0, 0, 1, 1, 0, 4, "quick"),
    (3, 2, 0, 0, 1, 1, 0, 2, "quick", 0),
    (3, 2, 1, 0, 1, 0, 1, 1, "thorough"),
    (3, 2, 1, 1, 1, 1, 0, 1, "thorough"),
    (4, 2, 0, 0, 1, 0, 1, 2, "thorough"),
    (4, 2, 1, 0, 1, 1, 0, 1, "thorough"),
    (5, 2, 0, 0, 1, 1, 0, 1, "thorough"),
    (4, 2, 0, 0, 1, 1, 0, 3, "thorough", 0),
)


def compaction_obls(prefix, want=None, tiers=("quick", "thorough")):
    out = []
    for cfg in CONFIGS:
        (n, snaps, faults, imm, env, nofree, ptr, level, tier) = cfg[:9]
        exact = cfg[9] if len(cfg) > 9 else 1
        if tier not in tiers:
            continue
        o = _one(prefix, n, snaps=snaps, faults=faults, imm=imm, env=env, nofree=nofree, ptr=ptr, level=level, exact=exact,
                 tier=tier, timeout=600 if tier == "quick" else 1800)
        if want is not None and not re.search(want, o.name):
            continue
        out.append(o)
    return out


META_FRAGMENT = {
    "bounds": ["ldb_do_compaction_work: <=5 input entries (quick: <=4) over <=2 one-byte user keys, symbolic 56-bit sequences, "
               "types and 1-byte values; 0..2 held snapshots; symbolic deeper-data bit per key; arbitrary output cuts "
               "(symbolic stop-before answers and size-limit hits); every I/O call failing / shutdown / imm hand-over at any "
               "position for <=4 entries (quick: <=3)"],
    "outside": ["more than 5 entries / 2 user keys per compaction; long keys and values; malformed internal keys in the input "
                "(kept verbatim by the 'do not hide error keys' branch, not exercised); the real ldb_inputiter_create / merging "
                "iterator (C07), the real ldb_compaction_is_base_level_for_key (C01.d) and should_stop_before, the real table "
                "builder (C16) and ldb_versions_apply (C02.d/C17) under the compaction; the flush inside the compaction loop beyond 'fails or writes no table' (decided by the flush obligations); real thread schedules"],
    "models": ["harness/dbimpl/compact.c: input iterator over a sorted symbolic array (fails/stops at a symbolic position), "
               "oracle stubs for base-level and stop-before (checked to be consulted once per key, in order), recorder stubs "
               "for table builder / output file / table-cache re-open / version edit / versions_apply, array model of "
               "rb_set64 for pending_outputs, world.h ghost mutex with interference at every lock/unlock",
               "kit/vp_alloc_d4.c (malloc never fails; byte buffers sized once; typed pointer slab for ldb_vector_t; "
               "ldb_free a no-op in the -nofree configurations)", "kit/vp_mem.c byte loops"],
}
