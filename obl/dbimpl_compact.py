"""db_impl.c monitor family: the REAL ldb_do_compaction_work (harness/dbimpl/compact.c).
compaction_obls(prefix) returns the list of Obl; used by C01 (c), C06 (b), C14 (c),
C02 (g), C13 (c)."""
from vp import Obl

KIT = ["vp_nondet.c", "vp_mem.c", "vp_alloc_d4.c"]
REAL = ["dbformat.c", "util/buffer.c", "util/comparator.c", "util/options.c", "util/slice.c", "table/iterator.c"]
INC_REAL = ["db_impl.c", "util/vector.c"]

FUNCS = ["ldb_do_compaction_work", "ldb_open_compaction_output_file", "ldb_finish_compaction_output_file",
         "ldb_install_compaction_results", "ldb_cleanup_compaction", "ldb_record_background_error",
         "ldb_cstate_create", "ldb_cstate_destroy", "ldb_cstate_top", "ldb_output_create", "ldb_output_destroy",
         "ldb_stats_init", "ldb_stats_add", "ldb_snaplist_empty", "ldb_snaplist_oldest", "ldb_user_comparator",
         "ldb_pkey_import", "ldb_ikey_init", "ldb_ikey_copy", "ldb_ikey_clear", "ldb_buffer_set", "ldb_buffer_grow",
         "ldb_buffer_copy", "ldb_buffer_clear", "ldb_vector_push", "ldb_vector_top", "ldb_vector_grow",
         "ldb_iter_create", "ldb_iter_destroy", "slice_compare"]

FP = ["ldb_do_compaction_work.function_pointer_call.1/vp_in_first",
      "ldb_do_compaction_work.function_pointer_call.2/vp_in_valid",
      "ldb_do_compaction_work.function_pointer_call.3/vp_in_key",
      "ldb_do_compaction_work.function_pointer_call.4/slice_compare",
      "ldb_do_compaction_work.function_pointer_call.5/vp_in_value",
      "ldb_do_compaction_work.function_pointer_call.6/vp_in_next",
      "ldb_do_compaction_work.function_pointer_call.7/vp_in_status",
      "ldb_finish_compaction_output_file.function_pointer_call.1/vp_in_status",
      "ldb_finish_compaction_output_file.function_pointer_call.2/vp_in_status",
      "ldb_iter_clear.function_pointer_call.1/vp_in_clear",
      "ldb_iter_clear.function_pointer_call.2/cleanup_iter_state",
      "ldb_iter_clear.function_pointer_call.3/cleanup_iter_state"]


def _one(prefix, n, snaps=2, faults=1, imm=0, env=1, nofree=0, ptr=1, seqbits=56, tier="quick", timeout=600):
    cap = 1
    while cap < n:
        cap = (cap * 3) // 2 + (1 if cap <= 1 else 0)   # growth policy of util/vector.c
    defs = {"VP_N": n, "VP_SNAPS": snaps, "VP_FAULTS": faults, "VP_IMM": imm, "VP_ENV": env, "VP_VEC_CAP": cap, "VP_NOFREE": nofree, "VP_SEQBITS": seqbits}
    name = "%s.compaction-n%d-snaps%d-faults%d-imm%d-env%d%s" % (prefix, n, snaps, faults, imm, env, ("-nofree" if nofree else "") + ("" if ptr else "-noptr") + ("" if seqbits == 56 else "-seq%d" % seqbits))
    uw = {"memcpy.0": 10, "memcmp.0": 2,
          "ldb_do_compaction_work.0": n + 1, "ldb_do_compaction_work.1": 2, "ldb_do_compaction_work.2": 3,
          "ldb_do_compaction_work.3": n + 1, "ldb_install_compaction_results.0": n + 1,
          "ldb_cleanup_compaction.0": n + 1, "ldb_cstate_destroy.0": n + 1}
    return Obl(name, "dbimpl/compact.c", real=REAL, include_real=INC_REAL, kit=KIT, defs=defs,
               unwind=max(n + 3, 10), unwindset=uw, restrict_fp=FP,
               remove_bodies=["ldb_compact_memtable"],
               tier=tier, timeout=timeout, functions=FUNCS,
               flags=["--slice-formula"] + ([] if ptr else ["--no-pointer-check", "--no-pointer-primitive-check"]),
               no_flags=[] if ptr else ["--pointer-overflow-check"],
               desc="TODO", bounds="TODO")


def compaction_obls(prefix):
    out = []
    for n in (1, 2, 3, 4):
        for faults in (0, 1):
            for env in (0, 1):
                out.append(_one(prefix, n, faults=faults, env=env))
    out.append(_one(prefix, 2, imm=1))
    out.append(_one(prefix, 3, faults=0, nofree=1))
    out.append(_one(prefix, 4, faults=0, nofree=1))
    out.append(_one(prefix, 3, faults=0, nofree=1, ptr=0))
    out.append(_one(prefix, 4, faults=0, nofree=1, ptr=0))
    out.append(_one(prefix, 4, faults=0, nofree=1, ptr=0, seqbits=16))
    out.append(_one(prefix, 5, faults=0, nofree=1, ptr=0))
    out.append(_one(prefix, 3, faults=1, nofree=1, ptr=0))
    return out
