from vp import Obl
from obl.dbimpl_recover import recover_log_obls, recover_obls, array_sort_obls

OBLIGATIONS = recover_obls("b") + array_sort_obls("b") + recover_log_obls("c")
META = {"level": "model_checking"}
