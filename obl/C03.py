"""C03 A process crash loses nothing that was acknowledged.

Decomposition (DESIGN 6, C03):
  w  acknowledged => the record was appended to the current log before success is returned (real ldb_write)
  b  real ldb_recover: exactly the logs {n >= log_number or n == prev_log_number} are replayed, ascending,
     each marked as used; last_sequence raised; missing table => CORRUPTION; nothing destroyed
     (+ the real quicksort of util/array.c that orders the logs)
  c  real ldb_recover_log_file: every record replayed once, in order; memtable written out or kept; reuse path
  d  real ldb_open: new log number after recovery, edit names the current log and carries the recovered tables,
     applied before anything is removed
  e  real file-number allocator (version_set.c)
"""
from vp import Obl
from obl.dbimpl_common import write_obls
from obl.dbimpl_recover import recover_obls, recover_log_obls, open_obls, array_sort_obls, filenum_obls

OBLIGATIONS = (write_obls("w", quick=((0, 0, 0, -1), (0, 1, 0, -1)), thorough=())
               + recover_obls("b")
               + recover_obls("b", quick=(), thorough=((2, 1, 0),), real_sort=True)
               + array_sort_obls("b")
               + recover_log_obls("c")
               + open_obls("d", quick=((1, 1, 1, 2),), thorough=((2, 1, 1, 2),))
               + filenum_obls("e"))

# g: a log is unlinked only when the MANIFEST no longer needs it (log_number / prev_log_number
# keep rule of the real ldb_remove_obsolete_files) -- while an immutable memtable is unflushed
# its log is the only durable copy of acknowledged writes; and a flush names the new log in the
# MANIFEST only after the table was built (real ldb_compact_memtable)
from obl.dbimpl_flushgc import gc_obls, flush_obls
OBLIGATIONS += [o for o in gc_obls("g") if o.tier == "quick"][:2] + [o for o in flush_obls("g") if o.tier == "quick"][:1]

META = {
    "level": "model_checking",
    "level_text": "Bounded model checking (CBMC) of the real recovery path of src/db_impl.c (#included, so the static functions run unchanged): ldb_recover, ldb_new_db, ldb_recover_log_file, ldb_write_level0_table, ldb_open, ldb_remove_obsolete_files, ldb_destroy_internal, plus ldb_write for the acknowledge side, the real quicksort of util/array.c and the real file-number allocator of version_set.c. Inputs are symbolic: the directory listing (file types and numbers), the counters recovered from the MANIFEST, the version's table set, the records of each log (sizes, sequences, counts, reported corruptions), the options, and the status of every env call. Asserted: success of a write implies its record was appended to the current log; reopening replays exactly the logs numbered >= log_number or == prev_log_number, each once, in ascending order, every record of >= 12 bytes once and in file order into a memtable that is written to a level-0 table recorded in the edit or kept as the live memtable; last_sequence and the file-number counter end above everything replayed; the edit that retires the old logs names the log that really is current and is applied before any file is removed.",
    "level_note": "Finding F3 (ldb_recover_log_file swallowed a failure to open a log when paranoid_checks is off; the log was then treated as recovered and deleted by ldb_open) was found by these obligations, is fixed in /repo (dba9c21) and is now asserted by every recover/open obligation. Trusted: CBMC's semantics of the goto-cc translation; the stubs below db_impl.c listed under models (in particular the log reader as a record source: framing, checksums and torn tails are decided by C15; the write-batch codec by C04.b; ldb_versions_recover / ldb_versions_apply by their contracts, decided by C17; the real filename.c by C17/C18); the prose composition of the per-unit obligations into the whole-history statement (acknowledged => in the log; log => replayed in order; replayed => in a table of the applied edit or in the live memtable). The byte image of the directory at each kill point is not materialised: 'crash at any instant' is covered through the invariants each unit keeps at every env call, not by enumerating kill points. No thread interleaving is executed (recovery is single-threaded; ldb_write uses the rely/guarantee model of C04).",
    "bounds": ["ldb_recover: directory of <=3 (quick) / <=5 (thorough) arbitrary distinct names of any file type incl. foreign names, 62-bit file numbers (16-bit for 4 and 5 names), <=2 tables in the recovered version, <=1 (quick) / <=2 (thorough) records per log",
               "ldb_recover_log_file: <=2 (quick) / <=3 (thorough) records per log with symbolic sizes (all size_t values), sequences 1..2^56, counts 0..10^6, a corruption report possible before every record and before EOF, symbolic write_buffer_size / memtable usage, paranoid_checks and reuse_logs both ways",
               "ldb_open: directory of <=2 names at recovery and <=2 (quick) / 3 (thorough) at garbage collection; every env call may fail with IOERR/CORRUPTION/ENOSPC/EMFILE/ENOENT",
               "util/array.c quicksort: 0..3 (quick) / 4 (thorough) arbitrary 64-bit numbers",
               "ldb_write: <=1 other writer, symbolic batch sizes and counts (see C04)"],
    "outside": ["more than 5 directory entries / more than 3 records per log (the replay loop is size-independent but not proved so)",
                "the contents of records and tables (abstract batches: sequence + count; C04.b/C15/C16 decide the codecs)",
                "byte-exact crash images and kill points inside ldb_versions_apply / ldb_set_current_file (C02/C05.b/C17)",
                "a non-table file that carries the number of a table the version expects hides the missing table from ldb_recover's check (same in LevelDB); excluded by the one-counter file-number discipline (C03.e)"],
    "notes": ["file numbers are unique per file type only: ldb_versions_recover reuses the recorded next-file number for the new MANIFEST, and a level-0 table written while replaying an early log can receive the number of a later, not yet registered log (names differ by suffix; same in LevelDB). The obligations therefore require 'new log number above every replayed log and every recovered table' only for a NEWLY allocated log, not for a reused last log."],
    "models": ["harness/dbimpl/world.h ghost mutex/condvar (ldb_mutex_assert_held re-enabled)",
               "harness/dbimpl/recover_world.h: encoded file names + stubbed filename.c API; symbolic directory listings; ldb_versions_recover/add_files/apply/new_file_number/mark_file_number by contract; log reader as a record source with corruption reports; abstract batches; single-object memtable/file/writer models with lifetime monitors; small abstract rb_set64; every env call with a symbolic status; static db object instead of the heap",
               "ldb_array_sort inside dbimpl/recover.c: compare-exchange network over the caller's comparison (the real compare_ascending); the real quicksort is decided separately by dbimpl/array_sort.c",
               "vp_mem.c byte loops; vp_nondet.c inputs"],
    "assumptions": ["directory entries are pairwise distinct names; file numbers < 2^62; recovered next_file_number exceeds log_number, prev_log_number and every table number (contract of ldb_versions_recover)",
                    "log records written by ldb_write carry sequence >= 1 (< 2^56) and count <= 10^6",
                    "between the two directory listings of ldb_open only this process creates files (LOCK held)",
                    "file-name construction cannot fail after ldb_path_absolute bounded the path length"],
    "design_ref": "DESIGN.md section 6 C03 (b, c, d, e; a is C15.b)",
}
