from obl.dbimpl_lifecycle import destroy_obls, backup_obls, cmpmismatch_obls

# a.*  C20.a  ldb_lock_file / ldb_unlock_file over libc stubs: one handle per database directory (owner: envunix family)
# b.*  C20.b  the real ldb_open: every failure releases the lock (and everything else), removes nothing (owner: recovery family)
# c.*  C20.c  the real ldb_destroy: own files only, LOCK last, nothing without the lock
# d.*  C20.d  the real ldb_versions_recover: foreign comparator name refused before anything is modified
# e.*  C20.e  the real ldb_backup / ldb_copy / ldb_backup_inner: protected window, copy set, source untouched, clean-up
OBLIGATIONS = destroy_obls("c") + cmpmismatch_obls("d") + backup_obls("e")

try:
    from obl.envunix_common import lockfile_obls
    OBLIGATIONS = lockfile_obls("a") + OBLIGATIONS
except ImportError:
    pass

try:
    from obl.dbimpl_recover import open_obls
    OBLIGATIONS = OBLIGATIONS + open_obls("b", quick=((1, 1, 1, 2),), thorough=((2, 1, 0, 2),))
except ImportError:
    pass

META = {
    "level": "model_checking",
    "level_text": "Bounded model checking (CBMC) of the real lifecycle functions of db_impl.c (#included, so the static ldb_backup_inner itself runs) and of the real ldb_versions_recover (version_set.c #included, with the real version_edit.c decoder) over symbolic directories and symbolic results of every environment call. ldb_destroy: over every listing of <=5 entries (own files of every type, foreign names) plus a lost/ sub-directory, ldb_remove_file is called only for listed names that ldb_parse_filename accepts, each once and only while the LOCK is held; the LOCK file goes after the unlock and after everything else, the directory last (failure ignored); a refused lock removes nothing; a missing directory is OK. ldb_backup: waits exactly while a background compaction is scheduled, takes the live set under the mutex and neither releases nor waits on it until the last file is transferred; ldb_copy holds the source's LOCK instead. ldb_backup_inner: the transferred set equals a reference (live tables hard-linked, dead tables/temp/LOCK/foreign skipped, logs/MANIFEST/CURRENT copied, info log only for ldb_copy), same names, the source directory receives no unlink/rename/write/truncate, the backup's own LOCK is taken first and released+removed on every path, the first failure stops the copy and every file created so far (also a partial one) is removed, the directory last, and the first error is returned; on success the directory is synced last. ldb_versions_recover: a MANIFEST record whose comparator name differs (in length or in any byte) from the handle's comparator name yields LDB_INVALID with no file-system modification issued up to the return and the version set untouched; an equal name proceeds. ldb_open failure paths release the lock and remove nothing; ldb_lock_file refuses a second handle on the same (device, inode).",
    "level_note": "Trusted: CBMC's semantics of the goto-cc translation; the path-name model kit/vp_d9_names (ldb_parse_filename / ldb_join / ldb_lock_filename / ldb_current_filename over encoded (directory, type, number, spelling) buffers: the text parser/formatter of filename.c is decided by C17/C18, here its contract is assumed); the env stubs (each call returns a symbolic status; the ghost backup directory: a successful or partially failed copy/link creates the entry, the clean-up listing shows exactly what was created); the record source of ldb_versions_recover (ldb_reader_read_record hands out standard-format records built byte by byte in the harness: the log reader is decided by C15); the environment model of other threads in ldb_backup (act only while the mutex is released or waited on; the background thread may reschedule itself <=2 times and latch an error). NOT decided here: that the copied directory opens and holds the source's contents (whole-program; the step from 'every file a recovery needs is in the copy, taken while nothing could change the file set' to 'opens and equals the source' is the prose argument of DESIGN 6 C20 together with C05/C03); a write-ahead-log record being appended by a writer that released the mutex for its I/O may be copied torn or complete (C15 decides that a torn tail is dropped). Two clean-up gaps of ldb_backup_inner are recorded as observations, not obligations (factory backup_strict_obls fails on them): a failed ldb_lock_file that had already created <bak>/LOCK, and a failed final ldb_sync_dir, leave files in the backup directory and return the error.",
    "bounds": ["ldb_destroy: <=5 (thorough 7) entries in the database directory and <=2 (3) in lost/, each an own name of any type with a 64-bit number and either spelling, or a foreign name; either listing may fail (ENOENT or any error); the lock may be refused with any error; every unlink/rmdir/unlock returns a symbolic status; every path may be too long to build",
               "ldb_backup / ldb_copy: source directory of <=4 (thorough 5) entries as above, <=2 (3) live table numbers (64 bit), <=2 waits; mkdir, lock, both listings, every copy/link (incl. leaving a partial file), unlink, rmdir, unlock and the directory sync return symbolic statuses; symbolic bg_error and background_compaction_scheduled; ldb_copy: CURRENT present or not, source lock granted or refused",
               "ldb_versions_recover: 1 or 2 MANIFEST records, comparator name present in either, handle's name 2..3 (thorough 26) symbolic non-zero bytes, stored name 2..4 (thorough 25..26) symbolic bytes, one-byte counters; CURRENT read, MANIFEST open, size query and append-open may fail; reuse_logs symbolic",
               "ldb_open (C20.b): as obl/dbimpl_recover.py open_obls (directory of 1-2 names, every env call may fail); ldb_lock_file (C20.a): as obl/envunix_common.py lockfile_obls (2-3 operations over 3 names, two sharing (dev,ino))"],
    "outside": ["that a backup/copy opens and equals the source at that moment (whole-program run); fsync of the copied files' data is inside ldb_copy_file (env layer), not seen here",
                "directories with more entries than the bound (each entry is handled independently by the code, but this is not proved)",
                "backup/database names longer than LDB_PATH_MAX-35 (refused up front by a strlen test that is executed but only with short names)",
                "cross-process exclusion (the fcntl lock itself is the kernel's), Windows env",
                "text of file names (filename.c: C17/C18), the real log reader under ldb_versions_recover (C15), MANIFEST records with files/compaction pointers in the comparator obligations (C14/C17)",
                "real thread schedules (ldb_backup's window is decided by ghost-mutex monitors)"],
    "models": ["harness/dbimpl/world.h ghost mutex/condvar; interference at every wait",
               "kit/vp_d9_names.c encoded path names in several directories (ldb_parse_filename, ldb_join, ldb_lock_filename, ldb_current_filename)",
               "harness/dbimpl/destroy.c, backup.c: env stubs/recorders (ldb_get_children, ldb_lock_file, ldb_unlock_file, ldb_remove_file, ldb_remove_dir, ldb_create_dir, ldb_copy_file, ldb_link_file, ldb_sync_dir, ldb_file_exists, ldb_system_error), live set = ldb_versions_add_files stub + membership model of rb_set64",
               "harness/vset/comparator_mismatch.c: CURRENT/MANIFEST stubs, record source, monitors on every modifying env/log-writer call; real version_edit.c, buffer.c, slice.c, rbt.c, dbformat.c, strutil.c underneath",
               "kit/vp_alloc_c17.c (malloc never fails, slab realloc), kit/vp_mem.c byte loops",
               "harness/dbimpl/recover_world.h (C20.b), harness/envunix/libc.h (C20.a)"],
    "design_ref": "DESIGN.md section 6 C20 (a-e)",
}
