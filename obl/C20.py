from obl.dbimpl_lifecycle import destroy_obls, backup_obls

OBLIGATIONS = destroy_obls("c") + backup_obls("e")
META = {"level": "model_checking"}
