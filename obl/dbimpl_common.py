"""Shared pieces of the db_impl.c monitor family (harness/dbimpl/*)."""
from vp import Obl

KIT = ["vp_nondet.c", "vp_mem.c"]

WRITE_FUNCS = ["ldb_write", "ldb_make_room_for_write", "ldb_build_batch_group",
               "ldb_queue_push", "ldb_queue_shift", "ldb_record_background_error",
               "ldb_maybe_schedule_compaction", "ldb_waiter_init"]

# (pre, post, nullbatch, nullidx)
WRITE_QUICK = ((0, 0, 1, -1), (0, 0, 0, -1), (0, 1, 0, -1), (1, 1, 0, -1), (0, 2, 0, 1))
WRITE_THOROUGH = ((1, 2, 0, -1), (1, 2, 0, 2), (2, 1, 0, -1), (0, 3, 0, -1), (1, 1, 1, -1))


def write_obls(prefix, quick=WRITE_QUICK, thorough=WRITE_THOROUGH):
    out = []
    for tier, tuples in (("quick", quick), ("thorough", thorough)):
        for (pre, post, nullbatch, nullidx) in tuples:
            nw = pre + post
            uw = {"ldb_make_room_for_write.0": 6, "ldb_write.0": 4, "ldb_write.1": nw + 2,
                  "ldb_build_batch_group.0": nw + 2}
            out.append(Obl("%s.write-pre%d-post%d-null%d-nullidx%d" % (prefix, pre, post, nullbatch, nullidx),
                           "dbimpl/write.c",
                           include_real=["db_impl.c"], kit=KIT,
                           defs={"VP_PRE": pre, "VP_POST": post, "VP_NULLBATCH": nullbatch, "VP_NULLIDX": nullidx},
                           unwind=nw + 4, unwindset=uw, tier=tier, timeout=900, flags=["--slice-formula"],
                           functions=WRITE_FUNCS,
                           desc="one real ldb_write() from an arbitrary queue state: group == one record == concatenation in queue order, size cap, sequences, publish-after-insert, sync-before-ack, wake-ups, error latching",
                           bounds="%d writers queued ahead, <=%d arriving behind, symbolic batch sizes 12..2MiB and counts 0..1000, <=2 waits, <=1 memtable switch" % (pre, post)))
    return out
