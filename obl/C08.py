from vp import Obl
from obl.dbimpl_common import write_obls
from obl.dbimpl_readers import reader_obls, GET, SNAPSHOT, RELEASE, ITER, SAMPLE

# a: the writer (one real ldb_write under interference, shared with C04);
# b: the readers capture their view in one critical section
# (the 1-ahead + 1-behind tuple needs 100..670 s on the loaded shared machine:
# thorough tier, longer timeout; 1 ahead + 2 behind did not finish in 900 s
# under load >= 25 and stays with C04's thorough tier)
OBLIGATIONS = write_obls("a", quick=((0, 1, 0, -1), (1, 0, 0, -1)), thorough=((1, 1, 0, -1),)) + \
    reader_obls("b", want=lambda t: not (t[0] == RELEASE and t[5] == 1))
for _o in OBLIGATIONS:
    if _o.tier == "thorough" and _o.harness == "dbimpl/write.c":
        _o.timeout = _o.cost = 1800

META = {
    "explanation": "Linearizability is not explored as a set of schedules: CBMC 6.11 rejects multi-threaded programs that share pointers. What is decided, by bounded model checking of one real API call at a time from an arbitrary well-formed state, is the sequential rely/guarantee skeleton the linearizability argument rests on: every API function captures (memtable, immutable memtable, current version, last sequence) in ONE critical section of db->mutex and later uses exactly the captured values although other threads (modelled as interference at every lock/unlock/wait) have changed the shared fields meanwhile; writers assign consecutive sequence numbers in log order and publish them only after the whole commit group is in the memtable; reference counts pin what is read outside the mutex.",
    "level": "other",
    "level_text": "Sequential rely/guarantee obligations, each decided by CBMC on the real db_impl.c: NO thread interleaving is explored, enumerated or executed anywhere in this check. One API call (ldb_write; ldb_get / ldb_has, ldb_iterator + its cleanup, ldb_snapshot, ldb_release, ldb_record_read_sample) runs alone from an arbitrary well-formed state; 'the other threads' are a model that may change the shared fields (writer queue tail, last_sequence, mem, imm, current version, snapshot list, seed) exactly at the points where the calling thread does not hold db->mutex (blocking in lock, unlock, cond_wait). Decided: every access to the state the linearizability argument rests on happens inside a db->mutex critical section (re-enabled ldb_mutex_assert_held, held-assertions in every stub, ghost copy compared at every lock); a reader captures (mem, imm, current, last_sequence) in ONE critical section and later uses exactly the captured objects, pinned by references taken before the release and dropped once afterwards on every path; lookups go mem, imm, version and stop at the first answer; a writer assigns consecutive sequence numbers in log order and publishes last_sequence only after the whole group is in the memtable.",
    "level_note": "This is NOT a proof of linearizability: real-time order across threads, 'a key never goes backwards under true concurrency', the lock-free memtable reads concurrent with an insert (skiplist publication order, C10.c) and the hardware memory model are outside. The step from these per-call guarantees to linearizability (linearization point of a write = the store to last_sequence under the mutex; of a read = its capturing critical section) is a prose argument in DESIGN section 6 C08 and is trusted, as are the environment model (other threads respect the same locking discipline; bounded numbers of switches / installs / arriving writers), the stubs, and CBMC's semantics of the goto-cc translation. CBMC 6.11 rejects multi-threaded programs that dereference shared pointers, so no interleaving could be encoded.",
    "bounds": ["ldb_write: <=1 writer queued ahead, <=1 arriving behind (quick: 1 other writer, ahead or behind), symbolic batch sizes 12..2 MiB and counts 0..1000, <=2 waits, <=1 memtable switch",
               "readers: one API call; imm present or absent (symbolic); environment at every lock/unlock: <=2 memtable switches, <=3 version installs, imm flush, last_sequence += 0..255, other snapshots taken / released; reference counts of mem / imm / current start at 1..3; user keys 0..3 symbolic bytes; symbolic lookup outcomes and seek statistics"],
    "outside": ["every real thread schedule, real-time ordering between calls of different threads, memory-model effects",
                "concurrent memtable insert + lookup (lock-free skiplist), table cache and block cache concurrency (C10)",
                "ldb_approximate_sizes, ldb_property, ldb_compact, ldb_backup as readers; memtable switch / version install critical sections (C08.c: decided with the flush / compaction obligations of the db_impl monitor family)",
                "more writers / more switches than the bounds above"],
    "models": ["world.h ghost mutex / condvar with environment interference at every lock acquisition, release and wait",
               "environment model of other threads in dbimpl/write.c (queue tail, earlier leader, background thread) and dbimpl/readers.c (env_act)",
               "recording stubs for log writer, memtable, version set, iterator constructors, thread pool; typed static allocator, abstract vector / value buffer / batches; vp_mem.c byte loops"],
    "design_ref": "DESIGN.md section 6 C08 (a, b), with C10.a lock-discipline assertions in the same harnesses",
}
