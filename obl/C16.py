"""C16 -- table files round-trip under every option and follow the standard
LevelDB table format.  Per-component obligations (DESIGN section 6, C16 a-g)."""
from vp import Obl

OBLIGATIONS = []
KIT = ["vp_nondet.c", "vp_mem.c", "vp_alloc.c"]


def add(name, harness, **kw):
    kw.setdefault("kit", KIT)
    kw.setdefault("timeout", 300)
    OBLIGATIONS.append(Obl(name, harness, **kw))


VARINT_UW = {"ldb_varint64_write.0": 11, "ldb_varint64_read.0": 11, "ldb_varint32_write.0": 6,
             "ldb_varint32_read.0": 6, "ldb_varint64_size.0": 11, "ldb_varint32_size.0": 6,
             "vp_ref_varint_put.0": 11, "vp_ref_varint_len.0": 11, "vp_ref_varint_get.0": 11}

# ---------------------------------------------------------------- c. format.c
FMT_REAL = ["table/format.c", "util/buffer.c"]
add("c.handle-all-values", "C16/format.c", real=FMT_REAL, defs={"VP_MODE": 0}, unwind=22, unwindset=VARINT_UW,
    functions=["ldb_handle_write", "ldb_handle_size", "ldb_handle_read", "ldb_handle_export", "ldb_handle_import"],
    desc="block handle: bytes == two reference varint64, size fn, export in place, read/import(write(h)) == h, truncated encoding rejected, for every 64-bit offset/size",
    bounds="offset, size: all 2^64 values each")
FOOTER_DESC = ("footer: exactly 48 bytes == reference layout (two varint64 handles, zero padding to 40, magic "
               "0xdb4775248b80fb57 LE) via write and export; read/import(write(f)) == f; 47 bytes rejected")
# all four varint length classes concrete, every value inside the class
for ls in ((1, 1, 1, 1), (10, 10, 10, 10), (3, 5, 2, 9), (10, 1, 10, 1), (9, 8, 7, 6)):
    add("c.footer-L%d-%d-%d-%d" % ls, "C16/format.c", real=FMT_REAL,
        defs={"VP_MODE": 1, "VP_PART": 1, "VP_L0": ls[0], "VP_L1": ls[1], "VP_L2": ls[2], "VP_L3": ls[3]},
        unwind=50, unwindset=VARINT_UW,
        functions=["ldb_footer_write", "ldb_footer_export", "ldb_footer_read", "ldb_footer_import"],
        desc=FOOTER_DESC, bounds="4 x 64-bit fields, every value whose varint lengths are %s" % (ls,))
# thorough: the 100 (len(meta.offset), len(meta.size)) classes with the index
# handle unconstrained cover every 4x64-bit footer
for l0 in range(1, 11):
    for l1 in range(1, 11):
        add("c.footer-all-values-L%d-%d" % (l0, l1), "C16/format.c", real=FMT_REAL,
            defs={"VP_MODE": 1, "VP_PART": 1, "VP_L0": l0, "VP_L1": l1}, unwind=50, unwindset=VARINT_UW,
            tier="thorough", timeout=900, cost=200,
            functions=["ldb_footer_write", "ldb_footer_export", "ldb_footer_read", "ldb_footer_import"],
            desc=FOOTER_DESC + " (index handle: all values)",
            bounds="metaindex handle: every value with varint lengths (%d,%d); index handle: all 2^128 values" % (l0, l1))
for n in (47, 48, 50):
    add("c.footer-read-arbitrary-N%d" % n, "C16/format.c", real=FMT_REAL, defs={"VP_MODE": 2, "VP_N": n}, unwind=n + 2,
        functions=["ldb_footer_read"],
        desc="footer read on arbitrary bytes accepts iff >= 48 bytes, magic matches and both handles parse; values and consumed length == reference decoder",
        bounds="N=%d arbitrary bytes" % n)
for n in (0, 1, 2, 11, 20, 21):
    add("c.handle-read-arbitrary-N%d" % n, "C16/format.c", real=FMT_REAL, defs={"VP_MODE": 3, "VP_N": n}, unwind=max(n, 10) + 2,
        functions=["ldb_handle_read"],
        desc="handle read on arbitrary bytes accepts iff two varint64 parse; values/consumed == reference",
        bounds="N=%d arbitrary bytes" % n)

META = {}

# ---------------------------------------------------------------- b. separators
SEP_REAL = ["util/comparator.c", "dbformat.c", "util/buffer.c", "util/strutil.c"]
FP = "%s.function_pointer_call.%d/%s"
for ls in range(0, 5):
    add("b.bytewise-separator-LS%d" % ls, "C16/separator.c", real=SEP_REAL,
        defs={"VP_MODE": 0, "VP_LS": ls, "VP_MAXL": 4}, unwind=14,
        restrict_fp=[FP % ("vp_check_sep", 1, "slice_compare"), FP % ("vp_check_sep", 2, "shortest_separator")],
        functions=["slice_compare", "shortest_separator"],
        desc="bytewise compare == reference order; shortest_separator: start <= sep < limit when start < limit, length never grows",
        bounds="start %d symbolic bytes, limit 0..4 symbolic bytes" % ls)
    add("b.bytewise-successor-LS%d" % ls, "C16/separator.c", real=SEP_REAL,
        defs={"VP_MODE": 1, "VP_LS": ls}, unwind=14,
        restrict_fp=[FP % ("harness", 1, "short_successor")],
        functions=["short_successor"],
        desc="bytewise short_successor: key <= succ, length never grows, 0xff runs unchanged",
        bounds="key %d symbolic bytes" % ls)
    for ll in range(0, 5):
        add("b.internal-separator-LS%d-LL%d" % (ls, ll), "C16/separator.c", real=SEP_REAL,
            defs={"VP_MODE": 2, "VP_LS": ls, "VP_MAXL": ll}, unwind=14,
            tier="quick" if (ls <= 3 and ll <= 3) else "thorough",
            restrict_fp=[FP % ("vp_check_isep", 1, "ldb_ikc_compare"), FP % ("vp_check_isep", 2, "ldb_ikc_shortest_separator"),
                         FP % ("ldb_ikc_compare", 1, "slice_compare"),
                         FP % ("ldb_ikc_shortest_separator", 1, "shortest_separator"),
                         FP % ("ldb_ikc_shortest_separator", 2, "slice_compare")],
            functions=["ldb_ikc_init", "ldb_ikc_compare", "ldb_ikc_shortest_separator", "shortest_separator", "slice_compare"],
            desc="internal-key compare == reference (user asc, tag desc); ldb_ikc_shortest_separator: start <= sep < limit in internal order when start < limit, never longer, keeps 8-byte tag",
            bounds="user keys %d and %d symbolic bytes, 8-byte tags fully symbolic" % (ls, ll))
    add("b.internal-successor-LS%d" % ls, "C16/separator.c", real=SEP_REAL,
        defs={"VP_MODE": 3, "VP_LS": ls}, unwind=14,
        restrict_fp=[FP % ("harness", 1, "ldb_ikc_short_successor"),
                     FP % ("ldb_ikc_short_successor", 1, "short_successor"),
                     FP % ("ldb_ikc_short_successor", 2, "slice_compare")],
        functions=["ldb_ikc_short_successor", "short_successor"],
        desc="ldb_ikc_short_successor: key <= succ in internal order, never longer, keeps 8-byte tag",
        bounds="user key %d symbolic bytes, 8-byte tag fully symbolic" % ls)

# ---------------------------------------------------------------- a. block builder -> reference reader / own iterator
BLK_REAL = ["table/block_builder.c", "util/buffer.c", "util/array.c", "util/comparator.c", "util/strutil.c"]
BLK_UW = dict(VARINT_UW)
BLK_UW.update({"vp_lcp.0": 5, "vp_ref_bytewise.0": 5, "vp_ref_block_decode.0": 5, "vp_ref_block_decode.1": 5,
               "ldb_realloc.0": 8, "ldb_realloc.1": 40, "memcpy.0": 5})


def klens_ok(ks):
    # strictly increasing keys: only the first key may be empty
    return all(k > 0 for k in ks[1:])


import itertools
BLK_QUICK = {0: [()], 1: [(0,), (1,), (3,)],
             2: [(0, 1), (1, 1), (1, 2), (2, 1), (3, 3), (2, 3), (3, 2)],
             3: [(1, 2, 3), (3, 3, 3), (0, 1, 2), (3, 2, 1), (2, 3, 2), (1, 1, 1)]}


def blk_defs(mode, n, r, pre, ks, vs):
    d = {"VP_MODE": mode, "VP_N": n, "VP_R": r, "VP_PRE": pre}
    for i, k in enumerate(ks):
        d["VP_K%d" % i] = k
    for i in range(n):
        d["VP_V%d" % i] = vs[i]
    return d


def blk_name(n, r, pre, ks, vs):
    return "N%d-R%d-PRE%d-K%s-V%s" % (n, r, pre, "".join(map(str, ks)) or "x", "".join(map(str, vs[:n])) or "x")


BLK_SEEN = set()
for n in range(0, 4):
    for ks in itertools.product(range(0, 4), repeat=n):
        if not klens_ok(ks):
            continue
        for vs in ((1, 0, 1), (0, 1, 0)):
            for r in (1, 2, 3):
                for pre in (0, 2):
                    if (r > n and r > 1 and n < 2) or (n == 0 and (pre or vs[0] == 0)):
                        continue
                    quick = ks in BLK_QUICK[n] and vs == (1, 0, 1) and (pre == 0 or ks in ((3, 3, 3), (1, 2, 3), (2, 1)))
                    nm = blk_name(n, r, pre, ks, vs)
                    if nm in BLK_SEEN:
                        continue
                    BLK_SEEN.add(nm)
                    add("a.blockgen-" + nm, "C16/block.c", real=BLK_REAL,
                        defs=blk_defs(0, n, r, pre, ks, vs), unwind=40, unwindset=BLK_UW,
                        tier="quick" if quick else "thorough",
                        functions=["ldb_blockgen_init", "ldb_blockgen_add", "ldb_blockgen_finish", "ldb_blockgen_reset",
                                   "ldb_blockgen_size_estimate"],
                        desc="built block parses with the reference LevelDB block reader to exactly the added entries; restart array, shared-prefix lengths, size estimate",
                        bounds="%d entries, key lengths %s (symbolic bytes, strictly increasing), value lengths %s, restart interval %d, %d entries before a reset" % (n, ks, vs[:n], r, pre))
