"""C16 -- table files round-trip under every option and follow the standard
LevelDB table format.  Per-component obligations (DESIGN section 6, C16 a-g)."""
from vp import Obl

OBLIGATIONS = []
KIT = ["vp_nondet.c", "vp_mem.c", "vp_alloc.c"]


def add(name, harness, **kw):
    kw.setdefault("kit", KIT)
    # generous wall limits: the machine is shared; thorough-tier queries take minutes
    kw.setdefault("timeout", 600 if kw.get("tier", "quick") == "quick" else 2400)
    OBLIGATIONS.append(Obl(name, harness, **kw))


VARINT_UW = {"ldb_varint64_write.0": 11, "ldb_varint64_read.0": 11, "ldb_varint32_write.0": 6,
             "ldb_varint32_read.0": 6, "ldb_varint64_size.0": 11, "ldb_varint32_size.0": 6,
             "vp_ref_varint_put.0": 11, "vp_ref_varint_len.0": 11, "vp_ref_varint_get.0": 11}

# ---------------------------------------------------------------- c. format.c
FMT_REAL = ["table/format.c", "util/buffer.c"]
add("c.handle-all-values", "C16/format.c", real=FMT_REAL, defs={"VP_MODE": 0}, unwind=22, unwindset=VARINT_UW,
    functions=["ldb_handle_write", "ldb_handle_size", "ldb_handle_read", "ldb_handle_export", "ldb_handle_import"],
    desc="block handle: bytes == two reference varint64, size fn, export in place, read/import(write(h)) == h, truncated encoding rejected, for every 64-bit offset/size",
    bounds="offset, size: all 2^64 values each")
FOOTER_DESC = ("footer: exactly 48 bytes == reference layout (two varint64 handles, zero padding to 40, magic "
               "0xdb4775248b80fb57 LE) via write and export; read/import(write(f)) == f; 47 bytes rejected")
# all four varint length classes concrete, every value inside the class
for ls in ((1, 1, 1, 1), (10, 10, 10, 10), (3, 5, 2, 9)):
    add("c.footer-L%d-%d-%d-%d" % ls, "C16/format.c", real=FMT_REAL,
        defs={"VP_MODE": 1, "VP_PART": 1, "VP_L0": ls[0], "VP_L1": ls[1], "VP_L2": ls[2], "VP_L3": ls[3]},
        unwind=50, unwindset=VARINT_UW,
        functions=["ldb_footer_write", "ldb_footer_export", "ldb_footer_read", "ldb_footer_import"],
        desc=FOOTER_DESC, bounds="4 x 64-bit fields, every value whose varint lengths are %s" % (ls,))
# thorough: the 100 (len(meta.offset), len(meta.size)) classes with the index
# handle unconstrained cover every 4x64-bit footer
for l0 in range(1, 11):
    for l1 in range(1, 11):
        add("c.footer-all-values-L%d-%d" % (l0, l1), "C16/format.c", real=FMT_REAL,
            defs={"VP_MODE": 1, "VP_PART": 1, "VP_L0": l0, "VP_L1": l1}, unwind=50, unwindset=VARINT_UW,
            tier="thorough", timeout=1800, cost=200,
            functions=["ldb_footer_write", "ldb_footer_export", "ldb_footer_read", "ldb_footer_import"],
            desc=FOOTER_DESC + " (index handle: all values)",
            bounds="metaindex handle: every value with varint lengths (%d,%d); index handle: all 2^128 values" % (l0, l1))
for n in (47, 48, 50):
    add("c.footer-read-arbitrary-N%d" % n, "C16/format.c", real=FMT_REAL, defs={"VP_MODE": 2, "VP_N": n}, unwind=n + 2,
        functions=["ldb_footer_read"],
        desc="footer read on arbitrary bytes accepts iff >= 48 bytes, magic matches and both handles parse; values and consumed length == reference decoder",
        bounds="N=%d arbitrary bytes" % n)
for n in (0, 1, 2, 11, 20, 21):
    add("c.handle-read-arbitrary-N%d" % n, "C16/format.c", real=FMT_REAL, defs={"VP_MODE": 3, "VP_N": n}, unwind=max(n, 10) + 2,
        functions=["ldb_handle_read"],
        desc="handle read on arbitrary bytes accepts iff two varint64 parse; values/consumed == reference",
        bounds="N=%d arbitrary bytes" % n)


# ---------------------------------------------------------------- b. separators
SEP_REAL = ["util/comparator.c", "dbformat.c", "util/buffer.c", "util/strutil.c"]
FP = "%s.function_pointer_call.%d/%s"
for ls in range(0, 5):
    add("b.bytewise-separator-LS%d" % ls, "C16/separator.c", real=SEP_REAL,
        defs={"VP_MODE": 0, "VP_LS": ls, "VP_MAXL": 4}, unwind=14,
        restrict_fp=[FP % ("vp_check_sep", 1, "slice_compare"), FP % ("vp_check_sep", 2, "shortest_separator")],
        functions=["slice_compare", "shortest_separator"],
        desc="bytewise compare == reference order; shortest_separator: start <= sep < limit when start < limit, length never grows",
        bounds="start %d symbolic bytes, limit 0..4 symbolic bytes" % ls)
    add("b.bytewise-successor-LS%d" % ls, "C16/separator.c", real=SEP_REAL,
        defs={"VP_MODE": 1, "VP_LS": ls}, unwind=14,
        restrict_fp=[FP % ("harness", 1, "short_successor")],
        functions=["short_successor"],
        desc="bytewise short_successor: key <= succ, length never grows, 0xff runs unchanged",
        bounds="key %d symbolic bytes" % ls)
    for ll in range(0, 5):
        add("b.internal-separator-LS%d-LL%d" % (ls, ll), "C16/separator.c", real=SEP_REAL,
            defs={"VP_MODE": 2, "VP_LS": ls, "VP_MAXL": ll}, unwind=14,
            tier="quick" if (ls == 0 or ll == 0 or (ls, ll) in ((1, 1), (2, 1))) and ls <= 3 and ll <= 3 else "thorough",
            restrict_fp=[FP % ("vp_check_isep", 1, "ldb_ikc_compare"), FP % ("vp_check_isep", 2, "ldb_ikc_shortest_separator"),
                         FP % ("ldb_ikc_compare", 1, "slice_compare"),
                         FP % ("ldb_ikc_shortest_separator", 1, "shortest_separator"),
                         FP % ("ldb_ikc_shortest_separator", 2, "slice_compare")],
            functions=["ldb_ikc_init", "ldb_ikc_compare", "ldb_ikc_shortest_separator", "shortest_separator", "slice_compare"],
            desc="internal-key compare == reference (user asc, tag desc); ldb_ikc_shortest_separator: start <= sep < limit in internal order when start < limit, never longer, keeps 8-byte tag",
            bounds="user keys %d and %d symbolic bytes, 8-byte tags fully symbolic" % (ls, ll))
    add("b.internal-successor-LS%d" % ls, "C16/separator.c", real=SEP_REAL,
        defs={"VP_MODE": 3, "VP_LS": ls}, unwind=14, tier="quick" if ls <= 2 else "thorough",
        restrict_fp=[FP % ("harness", 1, "ldb_ikc_short_successor"),
                     FP % ("ldb_ikc_short_successor", 1, "short_successor"),
                     FP % ("ldb_ikc_short_successor", 2, "slice_compare")],
        functions=["ldb_ikc_short_successor", "short_successor"],
        desc="ldb_ikc_short_successor: key <= succ in internal order, never longer, keeps 8-byte tag",
        bounds="user key %d symbolic bytes, 8-byte tag fully symbolic" % ls)

# ---------------------------------------------------------------- a. block builder -> reference reader / own iterator
BLK_REAL = ["table/block_builder.c", "util/buffer.c", "util/array.c", "util/comparator.c", "util/strutil.c"]
BLK_UW = dict(VARINT_UW)
BLK_UW.update({"vp_lcp.0": 5, "vp_ref_bytewise.0": 5, "vp_ref_block_decode.0": 5, "vp_ref_block_decode.1": 5,
               "memcpy.0": 5})
KITX = ["vp_nondet.c", "vp_mem.c", "vp_alloc_c16.c"]


def klens_ok(ks):
    # strictly increasing keys: only the first key may be empty
    return all(k > 0 for k in ks[1:])


import itertools
BLK_QUICK = {(0, 1, 0): [()],
             (1, 1, 0): [(3,)],
             (2, 1, 0): [(1, 2), (3, 3)], (2, 2, 0): [(1, 2), (3, 3), (2, 1), (0, 1)],
             (3, 1, 0): [(1, 2, 3)], (3, 2, 0): [(3, 3, 3), (2, 3, 2)], (3, 3, 0): [(3, 3, 3), (1, 2, 3)],
             (3, 3, 2): [(1, 2, 3)]}


def blk_defs(mode, n, r, pre, ks, vs):
    d = {"VP_MODE": mode, "VP_N": n, "VP_R": r, "VP_PRE": pre}
    for i, k in enumerate(ks):
        d["VP_K%d" % i] = k
    for i in range(n):
        d["VP_V%d" % i] = vs[i]
    return d


def blk_name(n, r, pre, ks, vs):
    return "N%d-R%d-PRE%d-K%s-V%s" % (n, r, pre, "".join(map(str, ks)) or "x", "".join(map(str, vs[:n])) or "x")


BLK_SEEN = set()
for n in range(0, 4):
    for ks in itertools.product(range(0, 4), repeat=n):
        if not klens_ok(ks):
            continue
        for vs in ((1, 0, 1), (0, 1, 0)):
            for r in (1, 2, 3):
                for pre in (0, 2):
                    if (r > n and r > 1 and n < 2) or (n == 0 and (pre or vs[0] == 0)):
                        continue
                    quick = ks in BLK_QUICK.get((n, r, pre), []) and vs == (1, 0, 1)
                    nm = blk_name(n, r, pre, ks, vs)
                    if nm in BLK_SEEN:
                        continue
                    BLK_SEEN.add(nm)
                    add("a.blockgen-" + nm, "C16/block.c", real=BLK_REAL, kit=KITX,
                        defs=blk_defs(0, n, r, pre, ks, vs), unwind=40, unwindset=BLK_UW, cost=40 * n + 10 * r,
                        tier="quick" if quick else "thorough",
                        functions=["ldb_blockgen_init", "ldb_blockgen_add", "ldb_blockgen_finish", "ldb_blockgen_reset",
                                   "ldb_blockgen_size_estimate"],
                        desc="built block parses with the reference LevelDB block reader to exactly the added entries; restart array, shared-prefix lengths, size estimate",
                        bounds="%d entries, key lengths %s (symbolic bytes, strictly increasing), value lengths %s, restart interval %d, %d entries before a reset" % (n, ks, vs[:n], r, pre))
# four entries: the smallest block in which a wrongly re-armed restart counter shows (interval 2: restarts at 0 and 2 only)
for (ks, r, tier) in (((1, 1, 1, 1), 2, "quick"), ((2, 1, 2, 3), 2, "thorough"), ((1, 2, 3, 3), 3, "thorough"), ((3, 3, 3, 3), 2, "thorough")):
    vs4 = (1, 0, 1, 0)
    add("a.blockgen-" + blk_name(4, r, 0, ks, vs4), "C16/block.c", real=BLK_REAL, kit=KITX,
        defs=blk_defs(0, 4, r, 0, ks, vs4), unwind=40, unwindset=BLK_UW, tier=tier, cost=200, timeout=600 if tier == "quick" else 1800,
        functions=["ldb_blockgen_init", "ldb_blockgen_add", "ldb_blockgen_finish", "ldb_blockgen_size_estimate"],
        desc="built block parses with the reference LevelDB block reader to exactly the added entries; restart array, shared-prefix lengths, size estimate",
        bounds="4 entries, key lengths %s (symbolic bytes, strictly increasing), value lengths %s, restart interval %d" % (ks, vs4, r))

BLKIT_REAL = BLK_REAL + ["table/iterator.c"]
BLKIT_UW = dict(BLK_UW)
BLKIT_UW.update({"memcmp.0": 5, "ldb_blockiter_seek.0": 4, "ldb_blockiter_seek.1": 6, "parse_next_key.0": 5})
for (n, r, ks, tl, tier) in ((0, 1, (), 1, "quick"), (1, 1, (2,), 2, "quick"), (2, 1, (1, 2), 2, "quick"), (2, 2, (2, 2), 2, "thorough"),
                             (3, 1, (1, 2, 3), 3, "thorough"), (3, 2, (2, 3, 2), 2, "thorough"), (3, 3, (3, 3, 3), 3, "thorough"),
                             (2, 2, (3, 3), 3, "thorough"),
                             (3, 2, (3, 3, 3), 3, "thorough"), (3, 1, (3, 3, 3), 3, "thorough"), (3, 2, (1, 2, 3), 1, "thorough"),
                             (3, 3, (1, 2, 3), 0, "thorough"), (3, 2, (0, 1, 2), 2, "thorough"), (2, 2, (2, 1), 3, "thorough")):
    d = blk_defs(1, n, r, 0, ks, (1, 0, 1))
    d["VP_TL"] = tl
    add("a.blockiter-%s-T%d" % (blk_name(n, r, 0, ks, (1, 0, 1)), tl), "C16/block.c", real=BLKIT_REAL, kit=KITX,
        include_real=["table/block.c"], defs=d, unwind=40, unwindset=BLKIT_UW, tier=tier, cost=50 * n + 10 * r,
        restrict_fp=[FP % ("do_compare", 1, "slice_compare")],
        functions=["ldb_block_init", "ldb_blockiter_init", "ldb_blockiter_first", "ldb_blockiter_next", "ldb_blockiter_seek",
                   "parse_next_key", "decode_entry", "ldb_blockgen_add", "ldb_blockgen_finish"],
        desc="lcdb's block iterator over the built block: forward scan yields the added entries in order; seek(target) lands on the first entry >= target (reference bytewise order), invalid past the end",
        bounds="%d entries, key lengths %s, restart interval %d, symbolic target of %d bytes" % (n, ks, r, tl))

# ---------------------------------------------------------------- f. bloom filter
def bloom_obl(name, mode, n, bpk, ks, abshash, tier="quick", fl=None, kovr=None):
    d = {"VP_MODE": mode, "VP_N": n, "VP_BPK": bpk}
    if kovr:
        d["VP_KOVR"] = kovr
    for i, k in enumerate(ks):
        d["VP_K%d" % i] = k
    if fl is not None:
        d["VP_FL"] = fl
    real = ["util/bloom.c", "util/buffer.c", "util/strutil.c"]
    if abshash:
        d["VP_ABSHASH"] = 1
    else:
        real.append("util/hash.c")
    if mode == 0:
        fps = [FP % ("harness", 1, "bloom_build"), FP % ("harness", 2, "bloom_match")]
        if n == 0:
            fps.append(FP % ("harness", 3, "bloom_match"))
        desc = "bloom filter built by the real build function: length, k byte, dst prefix untouched; NO FALSE NEGATIVE: every added key matches"
    elif mode == 1:
        fps = [FP % ("harness", 1, "bloom_match")]
        desc = "bloom match on an arbitrary filter: memory safe; < 2 bytes never matches; reserved k > 30 and k == 0 match"
    else:
        real.append("dbformat.c")
        fps = [FP % ("harness", 1, "ldb_ifp_build"), FP % ("harness", 2, "ldb_ifp_match"), FP % ("harness", 3, "bloom_match"),
               FP % ("ldb_ifp_build", 1, "bloom_build"), FP % ("ldb_ifp_match", 1, "bloom_match")]
        desc = "internal filter policy strips exactly the 8-byte tag in build and match: added user keys match under any tag, and the user policy matches the bare user key"
    add(name, "C16/bloom.c", real=real, defs=d, unwind=34, unwindset=({"memset.0": 16, "memcpy.0": 12} if abshash else {"memset.0": 16, "memcpy.0": 12, "ldb_hash.0": 4}),
        restrict_fp=fps, tier=tier, timeout=(600 if tier == "quick" else 1800), sat=(None if abshash and bpk < 30 else "cadical"),
        functions=["ldb_bloom_init", "bloom_build", "bloom_add", "bloom_match", "bloom_hash"] +
                  (["ldb_hash"] if not abshash else []) + (["ldb_ifp_init", "ldb_ifp_build", "ldb_ifp_match"] if mode == 2 else []),
        desc=desc + (" (hash: uninterpreted deterministic function, i.e. for every hash)" if abshash else " (real ldb_hash)"),
        bounds="%d keys of lengths %s (symbolic bytes), bits_per_key %d%s%s" % (n, tuple(ks[:max(n, 1)]), bpk, (", k overridden to %d" % kovr) if kovr else "", (", filter %d arbitrary bytes" % fl) if fl is not None else ""))


for bpk in (1, 10, 20):
    for (n, ks) in ((0, ()), (1, (2,)), (2, (1, 3)), (3, (0, 2, 3))):
        bloom_obl("f.bloom-abshash-N%d-B%d" % (n, bpk), 0, n, bpk, ks, True)
    bloom_obl("f.bloom-realhash-N1-B%d" % bpk, 0, 1, bpk, (2,), False)
    bloom_obl("f.bloom-realhash-N2-B%d" % bpk, 0, 2, bpk, (1, 3), False, tier="thorough")
bloom_obl("f.bloom-realhash-N3-B10", 0, 3, 10, (2, 5, 3), False, tier="thorough")
# moduli that are not a power of two (n * bits_per_key > 64)
bloom_obl("f.bloom-abshash-N3-B30", 0, 3, 30, (1, 2, 3), True, tier="thorough")   # 96 bits, k = 20
bloom_obl("f.bloom-abshash-N1-B65", 0, 1, 65, (2,), True, tier="thorough")        # 72 bits, k = 30 (clamped)
bloom_obl("f.bloom-abshash-N2-B33", 0, 2, 33, (1, 2), True, tier="thorough")      # 72 bits, k = 22
bloom_obl("f.bloom-abshash-N1-B72-K2", 0, 1, 72, (2,), True, kovr=2, tier="thorough")               # 72 bits, k overridden to 2
bloom_obl("f.bloom-abshash-N2-B40-K3", 0, 2, 40, (1, 2), True, kovr=3, tier="thorough")  # 80 bits, k overridden to 3
bloom_obl("f.bloom-realhash-N3-B30-long", 0, 3, 30, (4, 7, 8), False, tier="thorough")
for fl in (0, 1, 2, 5, 10):
    bloom_obl("f.bloom-match-arbitrary-F%d" % fl, 1, 1, 10, (3,), True, fl=fl)
bloom_obl("f.ifp-strip-N2-B10", 2, 2, 10, (0, 2), True)
bloom_obl("f.ifp-strip-N3-B10-realhash", 2, 3, 10, (1, 2, 3), False, tier="thorough")

# ---------------------------------------------------------------- e. filter block builder -> reader
FB_REAL = ["table/filter_block.c", "util/buffer.c", "util/array.c", "util/strutil.c"]
FB_FUNCS = ["ldb_filtergen_init", "ldb_filtergen_start_block", "ldb_filtergen_add_key", "ldb_filtergen_generate",
            "ldb_filtergen_finish", "ldb_filter_init", "ldb_filter_matches"]
FB_DESC = ("filter block builder->reader with an abstract consistent policy: every key added to the block at an offset matches "
           "at that offset; block parses per the LevelDB filter-block format (per-2KiB filters, offset array, array offset, "
           "base-lg 11) with filter i == policy output for range i; arbitrary probe == reference lookup")
for (cs, offs, kl, tier) in (((1,), (0,), 2, "quick"), ((2,), (2048,), 1, "quick"), ((1,), (8191,), 1, "quick"),
                             ((1, 1), (0, 2047), 2, "quick"), ((1, 1), (0, 2048), 2, "quick"), ((2, 1), (2047, 4096), 1, "quick"),
                             ((0, 2), (0, 6143), 1, "thorough"), ((2, 0), (0, 4095), 1, "quick"),
                             ((1, 1, 1), (0, 2048, 4096), 1, "thorough"), ((1, 1, 1), (0, 100, 6144), 1, "quick"),
                             ((2, 2, 2), (0, 2047, 2048), 2, "thorough"), ((1, 0, 2), (2048, 4096, 8191), 2, "thorough"),
                             ((2, 1, 2), (4095, 4096, 4097), 3, "thorough"), ((0, 0, 1), (0, 2048, 6144), 3, "thorough"),
                             ((2, 2), (1, 8191), 3, "thorough"), ((2, 2, 1), (0, 0, 0), 2, "thorough")):
    nb = len(cs)
    d = {"VP_NB": nb, "VP_KL": kl, "VP_SLAB": 160}
    for i, c in enumerate(cs):
        d["VP_C%d" % i] = c
        d["VP_O%d" % i] = offs[i]
    add("e.filterblock-C%s-O%s-KL%d" % ("".join(map(str, cs)), "_".join(map(str, offs)), kl), "C16/filter_block.c",
        real=FB_REAL, kit=KITX, defs=d, unwind=9, tier=tier, cost=60 * nb,
        restrict_fp=[FP % ("ldb_filtergen_generate", 1, "vp_pol_build"), FP % ("ldb_filter_matches", 1, "vp_pol_match")],
        functions=FB_FUNCS, desc=FB_DESC,
        bounds="%d blocks at offsets %s (real 2 KiB base), keys per block %s of %d symbolic bytes, symbolic probe key and probe offset < 10240" % (nb, offs, cs, kl))
# symbolic block offsets
for (cs, kl, tier, to) in (((1,), 1, "quick", 600), ((2,), 2, "thorough", 900), ((1, 1), 2, "thorough", 1800), ((0, 2), 2, "thorough", 1800),
                           ((1, 1, 1), 1, "thorough", 3000)):
    nb = len(cs)
    d = {"VP_NB": nb, "VP_KL": kl, "VP_SLAB": 160}
    for i, c in enumerate(cs):
        d["VP_C%d" % i] = c
    add("e.filterblock-symoff-C%s-KL%d" % ("".join(map(str, cs)), kl), "C16/filter_block.c", real=FB_REAL, kit=KITX,
        defs=d, unwind=9, tier=tier, timeout=to, cost=200 * nb,
        restrict_fp=[FP % ("ldb_filtergen_generate", 1, "vp_pol_build"), FP % ("ldb_filter_matches", 1, "vp_pol_match")],
        functions=FB_FUNCS, desc=FB_DESC,
        bounds="%d blocks at SYMBOLIC non-decreasing offsets < 8192 (real 2 KiB base), keys per block %s of %d symbolic bytes, symbolic probe key/offset" % (nb, cs, kl))

# ---------------------------------------------------------------- g. snappy
# n >= 17 reaches encode_block (hash-table matcher): 5-10 min per query, thorough tier only
for (n, tier, to) in ((0, "quick", 600), (1, "quick", 600), (5, "quick", 600), (16, "quick", 600), (17, "thorough", 3000),
                      (18, "thorough", 3000), (20, "thorough", 3600), (24, "thorough", 3600)):
    m = max(n - 15, 0)
    uw = {"memset.0": 514, "memcpy.0": n + 2, "vp_fill.0": n + 2,
          "encode_block.0": 4, "encode_block.1": m + 2, "encode_block.2": n + 1, "encode_block.3": m // 4 + 3,
          "encode_block.4": m + 2, "emit_copy.0": 2, "ldb_snappy_encode.0": 1,
          # the encoder emits at most 2*ceil((n-15)/4)+1 elements (literal, copy, ..., final literal)
          "decode_blocks.1": 2 * ((m + 3) // 4) + 3, "decode_blocks.0": n + 1,
          "vp_ref_snappy_decode.0": 5, "vp_ref_snappy_decode.1": n + 1, "vp_ref_snappy_decode.2": n + 1,
          "vp_ref_snappy_decode.3": 2 * ((m + 3) // 4) + 3, "ldb_varint32_read.0": 6, "vp_ref_varint_get.0": 6,
          "harness.0": n + 1, "harness.1": n + 1}
    for part in (None,):
        d = {"VP_MODE": 0, "VP_N": n}
        if part:
            d["VP_PART"] = part
        add("g.snappy-roundtrip-N%d%s" % (n, {None: "", 1: "-own", 2: "-ref"}[part]), "C16/snappy.c",
            real=["util/snappy.c"], kit=["vp_nondet.c", "vp_mem.c"],
            defs=d, unwind=n + 4, unwindset=uw, tier=tier, timeout=to, cost=20 * n,
            functions=["snappy_encode_size", "snappy_encode", "encode_block", "emit_literal", "emit_copy", "snappy_decode_size",
                       "snappy_decode", "decode_blocks"],
            desc="snappy: encode_size == 32+n+n/6, encode stays inside it (exact-size output object), decode_size == n, " +
                 {None: "decode(encode(x)) == x, independent reference Snappy decoder reads x back",
                  1: "decode(encode(x)) == x", 2: "independent reference Snappy decoder reads x back"}[part],
            bounds="x = %d symbolic bytes%s" % (n, " (>= 17: the hash-table matcher encode_block runs)" if n >= 17 else " (< 17: literal-only path)"))
for (n, z, tier) in ((3, 1, "quick"), (6, 4, "quick"), (5, 8, "quick"), (8, 6, "thorough"), (10, 8, "thorough"), (12, 10, "thorough"), (9, 16, "thorough")):
    add("g.snappy-decode-arbitrary-N%d-Z%d" % (n, z), "C16/snappy.c", real=["util/snappy.c"], kit=["vp_nondet.c", "vp_mem.c"],
        defs={"VP_MODE": 1, "VP_N": n, "VP_Z": z}, unwind=max(n, z) + 3, unwind_is_violation=True,
        tier=tier, timeout=600 if tier == "quick" else 2400, cost=10 * n,
        functions=["snappy_decode_size", "snappy_decode", "decode_blocks"],
        desc="snappy_decode on arbitrary bytes (preamble == output size, exact-size output object): memory safe, terminates, accepts iff the reference Snappy decoder accepts, same bytes",
        bounds="%d arbitrary input bytes declaring %d output bytes" % (n, z))

# ---------------------------------------------------------------- d. table builder -> independent table reader
TB_REAL = ["table/table_builder.c", "table/block_builder.c", "table/format.c", "table/filter_block.c",
           "util/buffer.c", "util/array.c", "util/comparator.c", "util/bloom.c", "util/hash.c", "util/snappy.c",
           "util/strutil.c", "util/slice.c"]
TB_KIT = ["vp_nondet.c", "vp_mem.c", "vp_alloc_c16.c", "vp_cksum.c"]
TB_UW = dict(VARINT_UW)
TB_UW.update({"vp_ref_bytewise.0": 9, "vp_ref_block_decode.0": 9, "vp_ref_block_decode.1": 5,
              "vp_fp.0": 4, "vp_pol_build.0": 4, "strlen.0": 10})
for (n, ks, bs, r, comp, flt, ns, tier) in ((1, (1,), 1, 1, 0, 0, 0, "quick"), (2, (1, 1), 1, 2, 0, 0, 1, "quick"), (3, (1, 1, 1), 1, 2, 0, 0, 1, "thorough"),
                                            (2, (1, 1), 4096, 1, 0, 0, 0, "quick"), (2, (1, 1), 4096, 2, 0, 0, 1, "thorough"),
                                            (1, (1,), 1, 1, 1, 0, 1, "quick"), (1, (1,), 1, 1, 0, 1, 1, "quick"), (2, (1, 1), 1, 1, 0, 1, 1, "thorough"),
                                            (2, (1, 1), 1, 1, 0, 0, 0, "thorough"),
                                            (2, (2, 2), 1, 1, 0, 0, 0, "thorough"), (3, (1, 2, 2), 1, 1, 0, 0, 0, "thorough"),
                                            (3, (2, 2, 2), 4096, 2, 0, 0, 0, "thorough"), (3, (1, 2, 1), 4096, 3, 0, 1, 0, "thorough"),
                                            (2, (1, 2), 1, 1, 1, 1, 0, "thorough")):
    d = {"VP_N": n, "VP_BS": bs, "VP_R": r, "VP_COMP": comp, "VP_FILTER": flt, "VP_SLAB": 96}
    if ns:
        d["VP_NOSHORT"] = 1
    for i, kl in enumerate(ks):
        d["VP_K%d" % i] = kl
    fps = [FP % ("ldb_tablegen_add", 1, "shortest_separator"), FP % ("ldb_tablegen_finish", 1, "short_successor")]
    if flt:
        fps.append(FP % ("ldb_filtergen_generate", 1, "vp_pol_build"))
    add("d.table-N%d-K%s-BS%d-R%d-C%d-F%d%s" % (n, "".join(map(str, ks)), bs, r, comp, flt, "-noshort" if ns else ""), "C16/table.c",
        real=TB_REAL, kit=TB_KIT, defs=d, unwind=50, unwindset=TB_UW, restrict_fp=fps, tier=tier,
        timeout=600 if tier == "quick" else 1800, cost=100 * n,
        functions=["ldb_tablegen_create", "ldb_tablegen_add", "ldb_tablegen_flush", "ldb_tablegen_finish",
                   "ldb_tablegen_write_block", "ldb_tablegen_write_raw_block", "ldb_blockgen_add", "ldb_blockgen_finish",
                   "ldb_footer_export", "ldb_handle_export", "shortest_separator", "short_successor"],
        desc="bytes appended by the table builder, read back by an independent table reader: footer last (magic, padding, handles), every block + 5-byte trailer (type, mask(F(contents||type))), blocks back to back, index (restart interval 1) -> handles and separator keys in [last key of block, first key of next), data blocks == added entries, metaindex/filter block; Snappy request on incompressible blocks stored raw",
        bounds="%d entries, key lengths %s (symbolic bytes, increasing), 1-byte values, block_size %d, restart interval %d, compression %s, filter policy %s, comparator %s" % (n, ks, bs, r, "snappy" if comp else "none", "abstract" if flt else "none", "bytewise without key shortening" if ns else "bytewise"))


# h: the table reader uses a filter block only if its metaindex key is exactly filter.<policy name>, and reads it
# checksum-verified under paranoid_checks (real ldb_table_open / read_meta / read_filter)
from obl.c11_parts import who_verifies_obls
OBLIGATIONS += who_verifies_obls("h")

# i: lcdb's block reader decodes entries exactly as an independent decoder of the standard block format does,
# for arbitrary block bytes (incl. multi-byte varint headers): shared with C18
import copy as _copy
from obl.C18 import OBLIGATIONS as _c18
for _o in _c18:
    if _o.name in ("e.block-first-N12", "e.block-first-next-N12", "e.block-seek-N12-T2"):
        _n = _copy.copy(_o)
        _n.name = "i." + _o.name.split(".", 1)[1]
        _n.tier = "quick"
        OBLIGATIONS.append(_n)

META = {
    "level": "model_checking",
    "level_text": ("Bounded model checking (CBMC 6.11) of lcdb's own table-format code, one component per query: "
                   "block_builder.c, block.c (iterator over built blocks), format.c (handle/footer), comparator.c and dbformat.c "
                   "(key shortening, internal-key order, internal filter policy), table_builder.c (through a recording "
                   "ldb_wfile_append), filter_block.c, bloom.c and snappy.c are executed symbolically and compared with "
                   "independently written readers/writers of the LevelDB table format (varints, prefix-compressed blocks with "
                   "restart array, block trailer, index/metaindex, filter block, footer, Snappy raw format) kept in "
                   "harness/C16/ref.h and the harnesses. Every verdict holds for all values of the symbolic bytes inside the "
                   "stated sizes; counterexamples are replayed natively (gcc, ASan+UBSan) on the same harness."),
    "level_note": ("Trusted: CBMC's C semantics of the goto-cc translation, the kit models, the references in the harnesses, and "
                   "the prose composition argument (a table = blocks + trailers + index + footer, each checked separately; the "
                   "whole build->open->scan path through table.c/two_level_iterator.c/cache/mmap is not executed in one query). "
                   "Sizes are tiny (<= 3 entries per block/table, keys <= 3 bytes, values <= 1 byte); entry/key lengths are "
                   "concrete per query, contents symbolic."),
    "explanation": ("C16 is split per component (DESIGN 6/C16 a-g). a: block builder output parsed by a reference block reader "
                    "and by lcdb's own block iterator (scan + seek). b: shortest_separator/short_successor of the bytewise and "
                    "internal-key comparators against reference orders. c: handle/footer codecs for all 64-bit values and the "
                    "readers on arbitrary bytes. d: table builder's appended bytes read back by an independent table reader "
                    "(abstract checksum). e: filter block builder->reader with an abstract consistent policy. f: bloom filter no "
                    "false negatives for an uninterpreted hash (and the real hash for one key), internal filter policy strips the "
                    "8-byte tag. g: snappy round trip + reference decoder."),
    "bounds": [
        "a: <= 3 entries per block, key lengths 0..3 and value lengths 0..1 (concrete per query, bytes symbolic, keys strictly increasing), restart interval 1..3, builder reused after reset; quick tier = 20 length/interval tuples, thorough = all 64 key-length tuples x 2 value patterns x 3 intervals x {fresh, reused}",
        "a (iterator): forward scan + one seek with a symbolic target of 0..3 bytes on blocks of <= 3 entries",
        "b: bytewise start/limit 0..4 symbolic bytes (all 25 length pairs); internal keys: user keys 0..4 bytes + fully symbolic 8-byte tags (quick: lengths <= 2 and (3,3); thorough: all 25 pairs)",
        "c: handle: all 2^128 (offset,size) values; footer: quick = 5 varint-length classes (all values inside each class), thorough = 100 classes covering every 4x64-bit footer; readers on arbitrary 47/48/50-byte (footer) and 0..21-byte (handle) inputs",
        "d: 1..3 entries, keys 1..2 bytes, 1-byte values, block_size 1 (one entry per block) or 4096, restart interval 1..3, compression none / snappy on incompressible blocks, filter policy none / abstract; quick tier mostly with a bytewise comparator whose optional shortening hooks are unset",
        "e: 1..3 blocks with 0..2 keys each (1..3 bytes) at concrete boundary offsets of the real 2 KiB ranges (0, 2047, 2048, 4095, 4096, 6143, 8191, ...), symbolic probe key and probe offset; symbolic block offsets for 1 block (quick) and 2..3 blocks (thorough)",
        "f: 0..3 keys of 0..3 bytes, bits_per_key 1/10/20 with an uninterpreted hash (filters of 64 bits); real ldb_hash for 1 key; filters longer than 64 bits (modulus not a power of two) only in the thorough tier; arbitrary filters of 0..10 bytes for match",
        "g: round trip for |x| in {0,1,5,16} (literal-only path) in the quick tier, |x| in {17,18,20,24} (hash-table matcher encode_block) in the thorough tier; decoder on 3..12 arbitrary bytes producing 1..16 bytes",
    ],
    "outside": [
        "whole-table build -> ldb_table_open -> two-level iterator scan/seek/get in one query (table.c, two_level_iterator.c are not in any C16 query)",
        "block cache and mmap option combinations (they do not change the bytes)", "custom user comparators other than bytewise",
        "realistic sizes: 4 KiB blocks, restart interval 16, thousands of entries, keys longer than 3 bytes",
        "compressed blocks that actually shrink inside the table builder (Snappy type 1 trailer): only the fallback to raw is checked in d; the compressor itself is g",
        "bloom filters longer than 64 bits in the quick tier; false-positive rate",
        "CRC-32C itself (abstract checksum here; the CRC kernel is C15)",
    ],
    "models": [
        "kit/vp_alloc_c16.c: ldb_realloc hands out one constant-size slab per buffer (VP_SLAB bytes, request above it is reported); an overrun of a builder's own buffer inside the slab is not seen by CBMC (the native ASan replay sees it)",
        "kit/vp_alloc.c (format/separator/bloom harnesses): exact-size objects, allocation never fails",
        "kit/vp_mem.c byte-loop memcpy/memmove/memset/memcmp/strlen", "kit/vp_nondet.c symbolic input sources",
        "kit/vp_cksum.c abstract streaming checksum in place of CRC-32C (table builder trailer): z = rotl(z,5) ^ b ^ K",
        "harness stub ldb_wfile_append/ldb_wfile_flush: in-memory recorder that always succeeds (I/O failure is C12)",
        "abstract filter policy (count byte + one fingerprint byte per key) in e and d; uninterpreted deterministic hash (memo table of fresh symbolic values) in place of ldb_hash in f",
        "function-pointer call sites (comparator, filter policy) restricted to the installed targets (goto-instrument --restrict-function-pointer; CBMC asserts the restriction)",
    ],
    "assumptions": [
        "documented preconditions only: keys added in strictly increasing order; filter block offsets non-decreasing; start < limit for the separator postcondition",
        "allocation never fails (lcdb aborts on allocation failure)",
    ],
}
