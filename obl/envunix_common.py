"""Obligations on src/util/env_unix_impl.h (the POSIX environment layer, reached
through `#include "util/env.c"`) executed over the libc models of
harness/envunix/libc.h.  Shared by C02 (item f), C12 (item c) and C20 (item a).

    wfile_obls(prefix)     writable file: create/append/flush/sync/close
    lockfile_obls(prefix)  ldb_lock_file / ldb_unlock_file
    rwmisc_obls(prefix)    write_file/read_file/rename/remove/sync_dir/rfile read+pread
"""
from vp import Obl

KIT = ["vp_nondet.c", "vp_mem.c", "vp_str.c"]
REAL = ["util/strutil.c"]

# the CMake/autotools build on Linux defines both (check_symbol_exists); the
# pinned flag set of lib/vp.py does not: both configurations are checked
POSIX_DEFS = {"LDB_HAVE_FDATASYNC": None, "LDB_HAVE_PREAD": None}

WFILE_FUNCS = ["ldb_truncfile_create", "ldb_appendfile_create", "ldb_wfile_create", "ldb_wfile_init",
               "ldb_wfile_append", "ldb_wfile_append0", "ldb_wfile_flush", "ldb_wfile_write",
               "ldb_wfile_sync", "ldb_wfile_sync0", "ldb_wfile_sync_dir", "ldb_sync_dir", "ldb_wfile_close",
               "ldb_wfile_destroy", "ldb_open", "ldb_try_open", "ldb_write", "ldb_fsync",
               "ldb_is_manifest", "ldb_system_error", "ldb_dirname", "ldb_basename", "ldb_starts_with"]

NAMES = {0: "db/000005.log", 1: "db/MANIFEST-000002", 2: "MANIFEST-000004", 3: "/MANIFEST-000007",
         4: "MANIFEST.d/000003.ldb", 5: "a//MANIFEST"}

WFILE_UNWIND = {
    # names are <= 21 characters
    "strlen.0": 24, "strrchr.0": 24, "vp_streq.0": 24, "ldb_starts_with.0": 10, "ldb_dirname.0": 4,
    "memcpy.0": 24, "vp_memcpy.0": 2,
}


NAMETAG = {0: "log", 1: "manifest", 2: "manifest-cwd", 3: "manifest-root", 4: "table-in-manifestdir", 5: "manifest-dslash"}
OPTAG = {1: "append", 2: "flush", 3: "sync", 4: "close-destroy", 5: "destroy", 6: "create"}
OPDESC = {
    1: "ONE ldb_wfile_append of a symbolic size 0..140000 from an arbitrary valid state (pos 0..65536): write(2) continues the accepted "
       "image exactly (in order, gap-free, nothing twice), memcpy stays in the buffer and in the caller's slice, short writes/EINTR "
       "handled, a failed write(2) is returned as its errno with pos==0 and exact resynchronisation, a fitting append makes no system call",
    2: "ONE ldb_wfile_flush from an arbitrary valid state: hands buf[0,pos) to write(2) exactly once in order, pos==0 afterwards also "
       "on failure, failure returned as errno",
    3: "ONE ldb_wfile_sync from an arbitrary valid state: MANIFEST => directory opened, fsynced, closed before the data fsync; others "
       "open nothing; buffer flushed before fsync/fdatasync; OK only if every step succeeded; the errno of the first failing step is "
       "returned; no descriptor leaked",
    4: "ONE ldb_wfile_close + ldb_wfile_destroy from an arbitrary valid state: flush, then close(2) exactly once also when the flush "
       "failed; error of flush or else of close(2) returned",
    5: "ldb_wfile_destroy without close: descriptor closed exactly once",
    6: "create alone: open(2) flags/mode (O_TRUNC resp. O_APPEND, never both wrong), EINTR retried, EINVAL retried without O_CLOEXEC "
       "+ FD_CLOEXEC by fcntl, failure returned as errno with no object and no descriptor left; MANIFEST detection; destroy closes once",
}


def _wstep(prefix, op, name, fdatasync, appendmode=0, intrs=1, shorts=1, tier="quick", timeout=600):
    defs = {"VP_OP": op, "VP_NAME": name, "VP_INTRS": intrs, "VP_SHORTS": shorts, "VP_APPENDMODE": appendmode}
    nm = "%s.wfile-step-%s-%s-%s%s" % (prefix, OPTAG[op], NAMETAG[name], "fdatasync" if fdatasync else "fsync",
                                       "-appendfile" if appendmode else "")
    uw = dict(WFILE_UNWIND)
    uw.update({"ldb_open.0": intrs + 2, "ldb_write.0": intrs + 2, "ldb_write.1": shorts + 2, "ldb_fsync.0": intrs + 2})
    return Obl(nm, "envunix/wfile.c", real=REAL, include_real=["util/env.c", "util/env_unix_impl.h"], kit=KIT,
               defs=defs, real_defs=(POSIX_DEFS if fdatasync else {}),
               unwind=VP_UNWIND, unwindset=uw, sat="cadical", timeout=timeout, tier=tier, functions=WFILE_FUNCS,
               desc="real create (%s) establishes the invariant; then %s" % (
                   "ldb_appendfile_create" if appendmode else "ldb_truncfile_create", OPDESC[op]),
               bounds="inductive step: file name %r; state before the step arbitrary within the invariant (pos 0..65536, <=1000 bytes "
                      "accepted/lost before, an error may have been reported before); every libc call may fail with any errno; "
                      "<=%d EINTR and <=%d short writes in the step" % (NAMES[name], intrs, shorts))


def _wseq(prefix, name, k, fdatasync, sizes, ops, close=1, appendmode=0, intrs=1, shorts=1, fails=1, recover=0, tier="quick", timeout=600):
    defs = {"VP_OP": 0, "VP_NAME": name, "VP_K": k, "VP_INTRS": intrs, "VP_SHORTS": shorts, "VP_FAILS": fails,
            "VP_APPENDMODE": appendmode, "VP_CLOSE": close,
            "VP_S0": sizes[0], "VP_S1": sizes[1], "VP_S2": sizes[2], "VP_O0": ops[0], "VP_O1": ops[1], "VP_O2": ops[2]}
    pos, direct = 0, False
    for i in range(k):          # does some append reach the unbuffered write?
        copy = min(sizes[i], 65536 - pos)
        rest = sizes[i] - copy
        if rest == 0:
            pos += copy
        elif rest < 65536:
            pos = rest
        else:
            pos, direct = 0, True
        if ops[i]:
            pos = 0
    if direct:
        defs["VP_WDIRECT"] = None
    if 2 in ops[:k]:
        defs["VP_WSYNC"] = None
    if recover:
        defs["VP_WRECOVER"] = None
    nm = "%s.wfile-seq-%s-%s-K%d-S%d.%d.%d-O%d%d%d-C%d-F%d%s" % (
        prefix, NAMETAG[name], "fdatasync" if fdatasync else "fsync", k, sizes[0], sizes[1], sizes[2],
        ops[0], ops[1], ops[2], close, fails, "-appendfile" if appendmode else "")
    uw = dict(WFILE_UNWIND)
    uw.update({"ldb_open.0": intrs + 2, "ldb_write.0": intrs + 2, "ldb_write.1": shorts + 2, "ldb_fsync.0": intrs + 2})
    return Obl(nm, "envunix/wfile.c", real=REAL, include_real=["util/env.c", "util/env_unix_impl.h"], kit=KIT,
               defs=defs, real_defs=(POSIX_DEFS if fdatasync else {}),
               unwind=VP_UNWIND, unwindset=uw, sat="cadical", timeout=timeout, tier=tier, functions=WFILE_FUNCS,
               desc="whole run create -> appends -> flush/sync -> close -> destroy: bytes accepted by write(2) are the appended stream "
                    "in order, gap-free, never twice; errors returned; exact resynchronisation after a failed write; sync ordering; "
                    "descriptor closed exactly once; byte count accepted+discarded+buffered == appended",
               bounds="file name %r, appends of %s bytes each followed by %s, %s, destroy; at symbolic places <=%d failing libc call "
                      "(any errno), <=%d EINTR, <=%d short write" % (
                          NAMES[name], sizes[:k], [("nothing", "flush", "sync")[o] for o in ops[:k]],
                          "close" if close else "no close", fails, intrs, shorts))


VP_UNWIND = 10


def _io(prefix, io, shorts, intrs, tier="quick", timeout=600):
    nm = "%s.%s-loop-S%d-I%d" % (prefix, ("ldb_write", "ldb_read", "ldb_pread")[io], shorts, intrs)
    loop = ("ldb_write", "ldb_read", "ldb_pread")[io]
    return Obl(nm, "envunix/ldbio.c", real=[], include_real=["util/env.c", "util/env_unix_impl.h"], kit=["vp_nondet.c"],
               defs={"VP_IO": io, "VP_SHORTS": shorts, "VP_INTRS": intrs}, real_defs=POSIX_DEFS,
               unwind=VP_UNWIND, unwindset={loop + ".0": intrs + 2, loop + ".1": shorts + 3}, sat="cadical",
               timeout=timeout, tier=tier, functions=[loop],
               desc=("real ldb_write loop alone: each write(2) continues exactly behind the accepted bytes, asks for 1..remaining, "
                     "EINTR retried, short counts completed; >=0 iff all bytes accepted, -1 + errno of the failed call after a strict prefix"
                     if io == 0 else
                     "real %s loop alone: chunks stored back to back inside the caller's buffer, offsets advance, EINTR retried, "
                     "returns exactly the bytes delivered (early stop only at EOF), -1 + errno on failure" % loop),
               bounds="symbolic length 0..140000, <=%d short transfers, <=%d EINTR, failure at any call with any errno" % (shorts, intrs))


def wfile_obls(prefix):
    TH = {"tier": "thorough", "timeout": 1800}
    out = [_io(prefix, 0, 2, 2), _io(prefix, 0, 3, 2, tier="thorough", timeout=1200)]
    # inductive steps.  fdatasync=0 is the flag set of lib/vp.py (fsync only), fdatasync=1 what CMake/autotools
    # define on Linux (fdatasync with ENOSYS fallback); only sync depends on it.
    out += [_wstep(prefix, 1, 0, 0),                      # append
            _wstep(prefix, 2, 0, 0),                      # flush
            _wstep(prefix, 3, 0, 0), _wstep(prefix, 3, 1, 0), _wstep(prefix, 3, 1, 1),   # sync: log, MANIFEST, MANIFEST+fdatasync
            _wstep(prefix, 4, 0, 0),                      # close + destroy
            _wstep(prefix, 6, 1, 0, intrs=2),             # create (MANIFEST name, truncating)
            _wstep(prefix, 6, 0, 0, appendmode=1, intrs=2)]   # create (log name, appending)
    out += [_wstep(prefix, 1, 1, 1, **TH), _wstep(prefix, 1, 0, 1, appendmode=1, **TH), _wstep(prefix, 2, 1, 1, **TH),
            _wstep(prefix, 3, 0, 1, **TH), _wstep(prefix, 4, 1, 1, **TH), _wstep(prefix, 5, 0, 1, **TH)]
    # other spellings of the name: MANIFEST detection (create) and the directory that sync opens
    for name in (2, 3, 4, 5):
        out.append(_wstep(prefix, 3, name, 1, **TH))
        out.append(_wstep(prefix, 6, name, 1, appendmode=name & 1, intrs=2, **TH))
    # whole runs, everything succeeds (concrete, cheap): the byte count closes
    out.append(_wseq(prefix, 1, 3, 1, (65535, 2, 140000), (0, 2, 1), intrs=0, shorts=0, fails=0))
    out.append(_wseq(prefix, 0, 3, 0, (100000, 65536, 1), (1, 0, 2), intrs=0, shorts=0, fails=0, appendmode=1, **TH))
    # whole runs with one failing call, one short write, one EINTR at symbolic places
    T = {"tier": "thorough", "timeout": 2400}
    out.append(_wseq(prefix, 0, 2, 1, (65535, 2, 0), (0, 1, 0), **T))
    out.append(_wseq(prefix, 1, 2, 1, (1, 65536, 0), (0, 2, 0), **T))
    out.append(_wseq(prefix, 0, 2, 0, (100000, 65537, 0), (2, 0, 0), close=0, **T))
    out.append(_wseq(prefix, 1, 2, 1, (70000, 30, 0), (1, 1, 0), appendmode=1, recover=1, **T))
    return out


LOCK_FUNCS = ["ldb_lock_file", "ldb_unlock_file", "ldb_flock", "ldb_open", "ldb_try_open", "ldb_system_error", "by_fileid",
              "ldb_rb_set_has", "ldb_rb_set_put", "ldb_rb_set_del", "ldb_rb_tree_get", "ldb_rb_tree_put", "ldb_rb_tree_del",
              "rb_tree_insert_fixup", "rb_tree_remove_node", "rb_tree_remove_fixup"]


def _lock(prefix, script, wit, posix=1, realrbt=0, tier="quick", timeout=600, known=None):
    """script: list of ops, 0/1/2 = lock name n (names 0 and 1 are the same file), 10+j = unlock handle of step j"""
    k = len(script)
    tag = "".join(("L%d" % o) if o < 10 else ("U%d" % (o - 10)) for o in script)
    nm = "%s.lockfile-%s%s%s" % (prefix, tag, "" if posix else "-tableonly", "-rbt" if realrbt else "")
    defs = {"VP_K": k, "VP_POSIXCLOSE": posix, "VP_INTRS": 0, "VP_REALRBT": realrbt}
    for i in range(4):
        defs["VP_P%d" % i] = script[i] if i < k else 0
    for w in wit:
        defs["VP_W_" + w] = None
    words = ", ".join(("lock(%s)" % ("db/LOCK", "alias/LOCK = same (dev,ino)", "other/LOCK")[o]) if o < 10 else
                      ("unlock(handle of step %d)" % (o - 10)) for o in script)
    return Obl(nm, "envunix/lockfile.c", real=(["util/rbt.c"] if realrbt else []), include_real=["util/env.c", "util/env_unix_impl.h"],
               kit=["vp_nondet.c", "vp_mem.c"], defs=defs, real_defs=POSIX_DEFS,
               unwind=8, unwindset={"ldb_open.0": 2, "vp_streq.0": 12, "memset.0": 40, "vp_name_id.0": 4},
               sat="cadical", timeout=timeout, tier=tier, functions=LOCK_FUNCS, known=known,
               desc=("real ldb_lock_file/ldb_unlock_file + (dev,ino) table (%s): lock OK <=> file not held and no libc failure; "
                     "second lock on a held file (any name) fails with ENOLCK; failure paths close the descriptor, return no handle, "
                     "leave the table unchanged; unlock = F_UNLCK + close once + free + entry removed; errno of the first failing call returned; "
                     "OS level (POSIX: closing any descriptor of a file drops the process' record lock): a held file stays fcntl-locked, "
                     "a refused attempt opens/closes nothing"
                     % ("real util/rbt.c" if realrbt else "array model of the set calling the real comparator by_fileid")),
               bounds="script: %s; (dev,ino) of the two files symbolic 64-bit; every open/fstat/fcntl/close may fail with any errno, "
                      "stat may fail for a file that is not held (an unlock whose lock step failed is skipped)" % words)


def lockfile_obls(prefix):
    return [
        _lock(prefix, [0, 1], ["REFUSED"]),                       # same file through another name
        _lock(prefix, [0, 2, 0], ["REFUSED", "BOTH"]),            # two files; third attempt on the first again
        _lock(prefix, [0, 10, 1], ["RELOCK", "UNLOCK"]),          # unlock removes the entry
        _lock(prefix, [0, 0, 10, 0], ["REFUSED", "RELOCK", "UNLOCK"], tier="thorough", timeout=1800),
        _lock(prefix, [0, 1], ["REFUSED"], realrbt=1, tier="thorough", timeout=2400),
        _lock(prefix, [2, 0, 11, 1], ["RELOCK", "UNLOCK", "BOTH"], tier="thorough", timeout=1800),
        _lock(prefix, [0, 2, 10, 11], ["UNLOCK", "BOTH"], tier="thorough", timeout=1800),
    ]


def lockfile_finding_obls(prefix):
    """kept for callers of the first version: the OS-level assertion is now part of every lockfile obligation (finding F4 fixed)"""
    return []


MISC = {
    1: ("paths", "ldb_remove_file/ldb_rename_file/ldb_create_dir/ldb_remove_dir/ldb_file_size: exactly one libc call with the caller's "
        "arguments, OK iff it succeeded, else its errno unchanged (ENOENT...); ldb_system_error: errno 0 -> LDB_IOERR, never LDB_OK",
        ["ldb_remove_file", "ldb_rename_file", "ldb_create_dir", "ldb_remove_dir", "ldb_file_size", "ldb_system_error"]),
    2: ("sync_dir", "ldb_sync_dir: open O_RDONLY (EINTR retried), fsync/fdatasync (ENOSYS fallback), descriptor closed exactly once on "
        "every path, errno of open or sync returned, EINVAL/EBADF of the directory sync tolerated",
        ["ldb_sync_dir", "ldb_open", "ldb_try_open", "ldb_fsync", "ldb_system_error"]),
    3: ("seqfile", "ldb_seqfile_create + ldb_rfile_read (symbolic count) + ldb_rfile_skip + destroy: result is exactly the bytes "
        "delivered (never more), shorter only at EOF, errno returned, result untouched on error, descriptor closed once",
        ["ldb_seqfile_create", "ldb_rfile_read", "ldb_read", "ldb_rfile_skip", "ldb_rfile_destroy", "ldb_rfile_close"]),
    4: ("randfile", "ldb_randfile_create (no mmap; descriptor limiter granting or refusing by symbolic RLIMIT_NOFILE) + ldb_rfile_pread "
        "with a kept descriptor or per-call open/close: result is exactly the bytes delivered, zero on error, errno returned, the "
        "per-call descriptor is closed once also on error, offsets beyond off_t refused, limiter slot returned",
        ["ldb_randfile_create", "ldb_randfile_init", "ldb_rfile_pread", "ldb_rfile_pread0", "ldb_pread", "ldb_limiter_acquire",
         "ldb_limiter_release", "ldb_env_init", "env_init", "ldb_max_open_files", "ldb_strdup", "ldb_rfile_destroy"]),
    5: ("mapfile", "ldb_randfile_create with mmap: fstat/mmap errors returned with descriptor closed and limiter slot returned; mapped "
        "pread inside the mapping only (offset+count overflow and out-of-range refused with EINVAL); destroy unmaps once",
        ["ldb_randfile_create", "ldb_mapfile_init", "ldb_rfile_pread0", "ldb_rfile_close"]),
    6: ("read_file", "ldb_read_file: chunks appended in order with exactly the delivered sizes until EOF, errno of open/read returned, "
        "file closed once on every path",
        ["ldb_read_file", "ldb_seqfile_create", "ldb_rfile_read", "ldb_read", "ldb_rfile_destroy"]),
}


def _misc(prefix, m, fdatasync=1, shorts=1, intrs=1, reads=1000, kept=1, tier="quick", timeout=600):
    tag, desc, funcs = MISC[m]
    nm = "%s.%s%s" % (prefix, tag, "" if fdatasync else "-nopread-fsync")
    if m == 4:
        nm += ("-percall", "-kept", "-limiter")[kept]
    uw = {"ldb_open.0": intrs + 2, "ldb_fsync.0": intrs + 2, "ldb_read.0": intrs + 2, "ldb_read.1": shorts + 3,
          "ldb_pread.0": intrs + 2, "ldb_pread.1": shorts + 3, "vp_streq.0": 16, "strlen.0": 16, "vp_memcpy.0": 16,
          "ldb_read_file.0": reads + 2}
    return Obl(nm, "envunix/rwmisc.c", real=[], include_real=["util/env.c", "util/env_unix_impl.h"],
               kit=["vp_nondet.c", "vp_mem.c"], defs={"VP_M": m, "VP_SHORTS": shorts, "VP_INTRS": intrs, "VP_READS": reads, "VP_KEPT": kept},
               real_defs=(POSIX_DEFS if fdatasync else {}), unwind=8, unwindset=uw, sat="cadical", timeout=timeout, tier=tier,
               functions=funcs, desc="real code over libc models: " + desc,
               bounds="every libc call may fail with any errno; <=%d EINTR, <=%d short reads; counts symbolic 0..20000, offsets 64-bit symbolic"
                      % (intrs, shorts))


def rwmisc_obls(prefix):
    TH = {"tier": "thorough", "timeout": 1800}
    out = [_io(prefix, 1, 2, 2), _io(prefix, 2, 2, 2)]
    out += [_misc(prefix, 1), _misc(prefix, 2), _misc(prefix, 2, fdatasync=0), _misc(prefix, 3), _misc(prefix, 4, kept=1, intrs=0),
            _misc(prefix, 4, kept=0, shorts=0, intrs=0), _misc(prefix, 4, kept=2), _misc(prefix, 4, kept=1, fdatasync=0, intrs=0, **TH),
            _misc(prefix, 5, intrs=0, shorts=0, **TH), _misc(prefix, 6, reads=2, shorts=1, intrs=0)]
    out += [_io(prefix, 1, 3, 2, tier="thorough", timeout=1200), _io(prefix, 2, 3, 2, tier="thorough", timeout=1200)]
    return out


# ---- META fragments for the properties that import this module ---------------------
LIBC_MODELS = [
    "harness/envunix/libc.h: monitoring models of open/close/write/read/pread/lseek/fsync/fdatasync/fcntl(F_GETFD,F_SETFD,F_SETLK)/"
    "fstat/stat/unlink/rename/mkdir/rmdir/mmap/munmap/getrlimit/pthread_once, reached by macro renaming inside the harness TU "
    "(same binding under CBMC and in the native replay); CBMC's own errno (__errno_location)",
    "every modelled call returns a symbolic result: success, EINTR (budgeted), failure with ANY errno 1..4095 (except EINTR, and "
    "except the values the real code treats specially where stated), short count for write/read (budgeted), EINVAL for O_CLOEXEC, "
    "ENOSYS for fdatasync; after success errno holds an arbitrary value",
    "file contents are not modelled: appended bytes are identified by their offset in the appended stream; memcpy into the 64 KiB "
    "buffer is an O(1) range recorder with explicit in-bounds assertions (it replaces byte-level bounds checks); the buffer keeps "
    "its real size 65536",
    "descriptor numbers are never reused; close(2) always releases the descriptor (Linux) even when it reports an error; closing any "
    "descriptor of a file drops the process' fcntl record lock on it (POSIX)",
    "allocator: the 65560-byte ldb_wfile_t is one static object per run, other allocations are malloc that never fails; "
    "ldb_mutex_lock/unlock are counters (lock harness) or no-ops",
    "lock table container: array model of rb_set_has/put/del calling the real comparator by_fileid (quick tier), real util/rbt.c (thorough tier)",
]

META_C02F = {
    "bounds": [
        "C02.f writable file of env_unix_impl.h: inductive steps -- real create establishes the invariant, then ONE real append (size "
        "symbolic 0..140000) / flush / sync / close+destroy from an ARBITRARY state within the invariant (pos 0..65536 symbolic), every "
        "libc call failing symbolically; <=1 EINTR and <=1 short write per step, the retry loop ldb_write on its own with <=2 (quick) / "
        "<=3 (thorough) short writes and <=2 EINTR and symbolic length 0..140000",
        "file names: db/000005.log, db/MANIFEST-000002 (quick); MANIFEST-000004, /MANIFEST-000007, MANIFEST.d/000003.ldb, a//MANIFEST (thorough)",
        "both sync configurations: fsync only (flag set of lib/vp.py) and -DLDB_HAVE_FDATASYNC (what CMake defines on Linux)",
        "whole runs create->3 appends (65535, 2, 140000 bytes)->sync/flush->close->destroy with succeeding calls (quick); with one "
        "failing call, one short write, one EINTR at symbolic places for 4 concrete size/schedule tuples (thorough)",
    ],
    "outside": [
        "write(2) returning 0 for a non-zero count (the real loop would spin); single appends above 140000 bytes, in particular the "
        "2^30 chunking of ldb_write/ldb_read; more than 3 short writes or 2 EINTR in one loop (prose: the loop body is the same)",
        "what the kernel does with accepted bytes (page cache, torn sectors); whether fdatasync suffices on a given file system",
        "composition of the per-operation steps into histories is by induction over the stated invariant (prose, cross-checked by the whole-run obligations)",
        "a failing close(2) of the read-only directory descriptor in ldb_sync_dir is ignored by design; a directory fsync failing with "
        "EINVAL/EBADF counts as success by design (deviation from upstream LevelDB, which reports it)",
    ],
    "models": LIBC_MODELS,
}

META_C12C = {
    "bounds": [
        "C12.c same obligations as C02.f: every write/fsync/fdatasync/open/close result symbolic with any errno; asserted: the call in "
        "which a libc call fails returns that errno (first failing call), a failed write(2) leaves pos==0, the unsent rest of the buffer "
        "and of the failing append is discarded ONLY inside a call that returned an error, nothing accepted earlier is sent again and the "
        "next accepted byte is the first byte appended after the failing call; close(2) is called exactly once also after a failed flush",
        "read side: ldb_read/ldb_pread loops (symbolic length, <=2/3 short reads, <=2 EINTR), ldb_rfile_read, ldb_rfile_pread (kept and "
        "per-call descriptor, mmap), ldb_read_file, ldb_sync_dir, ldb_remove_file/rename_file/create_dir/remove_dir/file_size: errno "
        "returned unchanged, never more bytes reported than delivered, descriptors closed exactly once on every path",
    ],
    "outside": [
        "after a write error the file has a hole by contract (same as upstream LevelDB): the caller must stop using it -- that the callers "
        "do is C12.a/d (db_impl), not this layer",
        "ldb_copy_file/ldb_link_file, ldb_get_children, ldb_logger_open, time functions; mmap page faults",
    ],
    "models": LIBC_MODELS,
}

META_C20A = {
    "bounds": [
        "C20.a ldb_lock_file/ldb_unlock_file: concrete scripts of 2-4 operations (lock by one of 3 names of which two are the same "
        "(dev,ino), unlock of an earlier handle) with symbolic 64-bit (dev,ino) and every open/stat/fstat/fcntl/close result symbolic: "
        "quick L0L1, L0L2L0, L0U0L1; thorough L0L0U0L0, L2L0U1L1, L0L2U0U1 and L0L1 over the real util/rbt.c",
        "OS-level view included: POSIX drops the process' record lock when any descriptor of the file is closed; asserted that a held "
        "file stays fcntl-locked and that a refused attempt opens/closes nothing (finding F4, repaired in /repo 4c3f022; reverting the "
        "repair gives VIOLATION on L0L1 and L0L2L0)",
    ],
    "outside": [
        "assumption: stat(2) of a lock file this process holds locked does not fail (if it failed while open(2) succeeds the repaired "
        "code falls back to open+fstat+close and drops the lock as before); a file replaced between stat and open",
        "other processes (only through symbolic fcntl results), flock() builds without F_SETLK, threads (file_mutex is checked to be "
        "taken and released once per call, not contention)",
    ],
    "models": LIBC_MODELS,
}

# development entry: ./check envunix_common
OBLIGATIONS = wfile_obls("f") + lockfile_obls("a") + rwmisc_obls("m")
META = {"level": "model_checking",
        "level_text": "development entry for the env_unix_impl.h obligations; the properties C02/C12/C20 import the *_obls functions",
        "bounds": META_C02F["bounds"] + META_C12C["bounds"] + META_C20A["bounds"],
        "outside": META_C02F["outside"] + META_C12C["outside"] + META_C20A["outside"],
        "models": LIBC_MODELS}
