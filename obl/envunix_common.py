"""Obligations on src/util/env_unix_impl.h (the POSIX environment layer, reached
through `#include "util/env.c"`) executed over the libc models of
harness/envunix/libc.h.  Shared by C02 (item f), C12 (item c) and C20 (item a).

    wfile_obls(prefix)     writable file: create/append/flush/sync/close
    lockfile_obls(prefix)  ldb_lock_file / ldb_unlock_file
    rwmisc_obls(prefix)    write_file/read_file/rename/remove/sync_dir/rfile read+pread
"""
from vp import Obl

KIT = ["vp_nondet.c", "vp_mem.c", "vp_str.c", "vp_alloc.c"]
REAL = ["util/strutil.c"]

# the CMake/autotools build on Linux defines both (check_symbol_exists); the
# pinned flag set of lib/vp.py does not: both configurations are checked
POSIX_DEFS = {"LDB_HAVE_FDATASYNC": None, "LDB_HAVE_PREAD": None}

WFILE_FUNCS = ["ldb_truncfile_create", "ldb_appendfile_create", "ldb_wfile_create", "ldb_wfile_init",
               "ldb_wfile_append", "ldb_wfile_append0", "ldb_wfile_flush", "ldb_wfile_write",
               "ldb_wfile_sync", "ldb_wfile_sync0", "ldb_wfile_sync_dir", "ldb_sync_dir", "ldb_wfile_close",
               "ldb_wfile_destroy", "ldb_open", "ldb_try_open", "ldb_write", "ldb_fsync",
               "ldb_is_manifest", "ldb_system_error", "ldb_dirname", "ldb_basename", "ldb_starts_with"]

NAMES = {0: "db/000005.log", 1: "db/MANIFEST-000002", 2: "MANIFEST-000004", 3: "/MANIFEST-000007",
         4: "MANIFEST.d/000003.ldb", 5: "a//MANIFEST"}

WFILE_UNWIND = {
    # retry loops: bounded by the EINTR / short-write budgets of the model (2 each)
    "ldb_open.0": 4, "ldb_write.0": 4, "ldb_write.1": 6, "ldb_fsync.0": 4,
    # names are <= 21 characters
    "strlen.0": 24, "strrchr.0": 24, "vp_streq.0": 24, "ldb_starts_with.0": 10, "ldb_dirname.0": 4,
    "memcpy.0": 24, "vp_memcpy.0": 2,
}


def _wfile(prefix, name, k, fdatasync, sizes=None, ops=1, intrs=1, shorts=1, tier="quick", timeout=300):
    defs = {"VP_NAME": name, "VP_K": k, "VP_OPS": ops, "VP_INTRS": intrs, "VP_SHORTS": shorts}
    nm = "%s.wfile-%s-K%d-%s" % (prefix, {0: "log", 1: "manifest", 2: "manifest-cwd", 3: "manifest-root",
                                          4: "table-in-manifestdir", 5: "manifest-dslash"}[name], k,
                                 "fdatasync" if fdatasync else "fsync")
    if sizes is not None:
        defs.update({"VP_S0": sizes[0], "VP_S1": sizes[1], "VP_S2": sizes[2]})
        nm += "-S%d.%d.%d" % tuple(sizes)
        sz = "appended sizes %s" % (sizes[:k],)
    else:
        sz = "each appended size symbolic in 0..200000 (buffer 65536 at its real size)"
    if not ops:
        nm += "-noops"
    uw = dict(WFILE_UNWIND)
    # retry loops: bounded by the EINTR / short-write budgets of the model
    uw.update({"ldb_open.0": intrs + 2, "ldb_write.0": intrs + 2, "ldb_write.1": shorts + 2, "ldb_fsync.0": intrs + 2})
    return Obl(nm, "envunix/wfile.c", real=REAL, include_real=["util/env.c", "util/env_unix_impl.h"], kit=KIT,
               defs=defs, real_defs=(POSIX_DEFS if fdatasync else {}),
               unwind=VP_UNWIND, unwindset=uw, timeout=timeout, tier=tier, functions=WFILE_FUNCS,
               desc="real writable file over libc models: bytes accepted by write(2) are the appended stream in order, gap-free, "
                    "never twice; short writes/EINTR handled; a failed write(2)/fsync/close/open is returned as its errno; "
                    "pos==0 and exact resynchronisation after a failed write; sync = dir fsync (MANIFEST only) -> flush -> "
                    "fsync/fdatasync; close flushes and closes the descriptor exactly once",
               bounds="file name %r, create by trunc or append (symbolic), %d appends, %s, symbolic flush/sync/none after each append, "
                      "symbolic close, destroy; every libc call may fail with any errno; <=2 EINTR and <=2 short writes per run"
                      % (NAMES[name], k, sz))


VP_UNWIND = 10


def wfile_obls(prefix):
    out = []
    for fds in (0, 1):
        out.append(_wfile(prefix, 0, 2, fds))
        out.append(_wfile(prefix, 1, 2, fds))
    out.append(_wfile(prefix, 0, 1, 0))
    out.append(_wfile(prefix, 2, 1, 1))
    out.append(_wfile(prefix, 3, 1, 1))
    out.append(_wfile(prefix, 4, 1, 1))
    out.append(_wfile(prefix, 5, 1, 1))
    out.append(_wfile(prefix, 0, 3, 1, tier="thorough", timeout=1200))
    out.append(_wfile(prefix, 1, 3, 1, tier="thorough", timeout=1200))
    return out


def lockfile_obls(prefix):
    return []


def rwmisc_obls(prefix):
    return []


# development entry: ./check envunix_common
OBLIGATIONS = wfile_obls("f") + lockfile_obls("a") + rwmisc_obls("m")
META = {"level": "model_checking", "bounds": [], "outside": [], "models": ["harness/envunix/libc.h"]}
