from vp import Obl

KIT = ["vp_nondet.c", "vp_mem.c", "vp_alloc.c", "vp_cksum.c"]


def read_block_obls(prefix, quick=(0, 1, 3), thorough=(6, 9)):
    out = []
    for tier, ns in (("quick", quick), ("thorough", thorough)):
        for n in ns:
            out.append(Obl("%s.read-block-N%d" % (prefix, n), "C11/read_block.c",
                           real=["table/format.c", "util/options.c", "util/buffer.c", "util/slice.c"], kit=KIT,
                           defs={"VP_N": n}, unwind=n + 8, unwindset={"ldb_realloc.0": 25},
                           flags=["--memory-leak-check"], tier=tier, timeout=600,
                           functions=["ldb_read_block", "ldb_crc32c_unmask", "ldb_contents_init"],
                           desc="real ldb_read_block over a symbolic file: accepted with verification => stored checksum == mask(F(payload||type)); short read/IO error/bad type/size overflow -> status; result bytes == payload; buffer freed on every path",
                           bounds="payload %d bytes (all values), symbolic trailer, offset, options, short reads and errors; abstract checksum F; Snappy replaced by its contract" % n))
    return out


def who_verifies_obls(prefix):
    return [Obl("%s.table-open-who-verifies" % prefix, "C11/who_verifies.c",
                real=["util/options.c", "util/comparator.c"], include_real=["table/table.c"],
                kit=["vp_nondet.c", "vp_mem.c", "vp_alloc.c"], unwind=6, unwindset={"ldb_realloc.0": 25},
                timeout=600, functions=["ldb_table_open", "ldb_table_read_meta", "ldb_table_read_filter"],
                desc="real ldb_table_open/read_meta/read_filter: with paranoid_checks every block read while opening (index, metaindex, filter) asks for checksum verification",
                bounds="all option/result combinations of one table open; callees are recorders")]
