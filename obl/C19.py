from obl.vset_common import get_obls

# a: placement (all tables in level 0, as repair.c's write_descriptor does) vs level-0 lookup
OBLIGATIONS = (get_obls("a", 1, ((2, 0, 0, 1, 2, 1), (2, 0, 0, 1, 2, 2))) +
               get_obls("a", 1, ((3, 0, 0, 1, 2, 1),), tier="thorough") +
               get_obls("a", 2, ((2, 0, 0, 1, 2, 1),), known="F2-repair-level0-order", tag="-finding"))

# b-d: the real repair.c units: descriptor written and installed only after the old MANIFESTs are archived,
# counters above everything on disk, every scanned table added once; scan_table bounds/size; find_files; log conversion
from obl.repair_common import repair_obls
OBLIGATIONS += repair_obls("b")

META = {
    "level": "model_checking",
    "level_text": "Bounded model checking (CBMC) of the real ldb_version_get (version_set.c with the real internal-key comparator) over tables placed the way repair.c places them (everything in level 0 under its old file number), against the reference 'newest entry <= snapshot over all surviving entries'. The strict obligation excludes exactly the listed finding F2; the finding itself is a separate obligation whose counterexample is replayed natively (and end-to-end by findings/F2/run.sh) and printed as KNOWN-FINDING.",
    "level_note": "Trusted: CBMC semantics; the table layer is replaced by the contract of ldb_tables_get (first entry >= key); file numbers/sequences range over 1..15 (the code only compares them); repair.c's units (write_descriptor, scan_table, find_files, convert_log_to_table) run for real over an encoded path-name model with recorder stubs for env/table cache/log reader; repair_table (salvage) and the sequencing of the whole repair run are not encoded.",
    "bounds": ["repair.c units: <=3 scanned tables, <=3 old MANIFESTs, <=6 directory entries, <=3 log records, 0-3 table entries; every env step may fail", "2-3 tables in level 0, 1-2 entries each, 1-byte user keys, sequences and file numbers 1..15, any snapshot"],
    "outside": ["repair_table salvage path and whole repair_run sequencing", "iterators after repair (merge by sequence: C07)", "archive/rename of damaged files"],
    "models": ["ldb_tables_get contract model in harness/vset/get.c", "kit/vp_alloc.c incl. typed pointer arrays for ldb_vector_t"],
    "design_ref": "DESIGN.md section 6 C19.a, section 8 F2",
}
