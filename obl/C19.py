from obl.vset_common import get_obls
OBLIGATIONS = get_obls("a", 1, ((2, 0, 0, 1, 2, 1),)) + get_obls("a", 2, ((2, 0, 0, 1, 2, 1),), known="F2-repair-level0-order", tag="-finding")
META = {"level": "model_checking"}
