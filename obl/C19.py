from obl.vset_common import get_obls

# a: placement (all tables in level 0, as repair.c's write_descriptor does) vs level-0 lookup
OBLIGATIONS = (get_obls("a", 1, ((2, 0, 0, 1, 2, 1), (2, 0, 0, 1, 2, 2))) +
               get_obls("a", 1, ((3, 0, 0, 1, 2, 1),), tier="thorough") +
               get_obls("a", 2, ((2, 0, 0, 1, 2, 1),), known="F2-repair-level0-order", tag="-finding"))

META = {
    "level": "model_checking",
    "level_text": "Bounded model checking (CBMC) of the real ldb_version_get (version_set.c with the real internal-key comparator) over tables placed the way repair.c places them (everything in level 0 under its old file number), against the reference 'newest entry <= snapshot over all surviving entries'. The strict obligation excludes exactly the listed finding F2; the finding itself is a separate obligation whose counterexample is replayed natively (and end-to-end by findings/F2/run.sh) and printed as KNOWN-FINDING.",
    "level_note": "Trusted: CBMC semantics; the table layer is replaced by the contract of ldb_tables_get (first entry >= key); file numbers/sequences range over 1..15 (the code only compares them); repair.c's own scan/convert/descriptor code (C19.b-d) is not yet encoded: string- and directory-heavy, see DESIGN section 6 C19.",
    "bounds": ["2-3 tables in level 0, 1-2 entries each, 1-byte user keys, sequences and file numbers 1..15, any snapshot"],
    "outside": ["repair.c scan_table / convert_log_to_table / write_descriptor counters (C19.b-d)", "iterators after repair (merge by sequence: C07)", "archive/rename of damaged files"],
    "models": ["ldb_tables_get contract model in harness/vset/get.c", "kit/vp_alloc.c incl. typed pointer arrays for ldb_vector_t"],
    "design_ref": "DESIGN.md section 6 C19.a, section 8 F2",
}
