"""Obligations over the real static functions of src/repair.c (harness/repair/units.c #includes it).
Factory repair_obls(prefix) for C19."""
from vp import Obl

KIT = ["vp_nondet.c", "vp_mem.c", "vp_alloc_c17.c", "vp_d9_names.c"]
REAL = ["util/buffer.c", "util/slice.c", "dbformat.c", "util/array.c", "util/options.c", "util/comparator.c"]
FLAGS = ["--slice-formula", "--max-field-sensitivity-array-size", "2000"]
INC = ["repair.c", "util/vector.c"]


def _wd(prefix, t, m, tier="quick", timeout=300):
    return Obl("%s.repair-write-descriptor-T%d-M%d" % (prefix, t, m), "repair/units.c", real=REAL, include_real=INC, kit=KIT,
               defs={"VP_MODE": 0, "VP_T": t, "VP_M": m, "VP_SLAB": 32, "VP_VEC_CAP": 4},
               unwind=14, unwindset={"write_descriptor.0": t + 1, "write_descriptor.1": t + 1, "write_descriptor.2": m + 1},
               tier=tier, timeout=timeout, flags=FLAGS, sat="cadical",
               functions=["write_descriptor", "archive_file"],
               desc="real write_descriptor(): descriptor written to the temp file; edit = comparator name, log number 0, next-file == the "
                    "repairer's counter, last-sequence == max over scanned tables, every scanned table exactly once at level 0 with its "
                    "number/size/smallest/largest; every old MANIFEST archived to lost/ exactly once, after the new descriptor is closed "
                    "and STRICTLY BEFORE the temp file is renamed to MANIFEST-000001; CURRENT switched only after that rename; any "
                    "failing env step returns its error and removes the temp file, installing nothing",
               bounds="<=%d scanned tables (symbolic 64-bit number, size, max sequence, 9-byte keys), <=%d old MANIFESTs with symbolic "
                      "64-bit numbers (may be 1), symbolic next_file_number; create/write/close/archive-rename/mkdir/install-rename/"
                      "CURRENT switch/unlink each return a symbolic status" % (t, m))


def _scan(prefix, e, short, tier="quick", timeout=300):
    return Obl("%s.repair-scan-table-E%d-short%d" % (prefix, e, short), "repair/units.c", real=REAL, include_real=INC, kit=KIT,
               defs={"VP_MODE": 1, "VP_E": e, "VP_SHORT": short, "VP_SLAB": 16, "VP_VEC_CAP": 4},
               unwind=14, unwindset={"scan_table.0": e + 1, "memcpy.0": 10},
               tier=tier, timeout=timeout, flags=FLAGS, sat="cadical",
               functions=["scan_table", "tableiter_create", "tabinfo_create", "archive_file", "ldb_pkey_import", "ldb_ikey_copy"],
               desc="real scan_table(): table looked up as NNNNNN.ldb and only then as NNNNNN.sst; size handed to the table cache and "
                    "recorded in the metadata == size ldb_file_size reported for the name that exists; neither exists => both names "
                    "archived, nothing recorded; smallest/largest/max_sequence == first/last/max over the parsable keys of the iterator "
                    "(unparsable keys skipped); verify_checksums == paranoid_checks; iterator released; recorded exactly once",
               bounds="symbolic 64-bit table number, ldb_file_size of either spelling fails or returns a symbolic 64-bit size, iterator of "
                      "%d entries (9-byte keys with symbolic user byte / 56-bit sequence / type byte incl. invalid types; entries in mask "
                      "%d have 3-byte keys), iterator status OK (repair_table not entered)" % (e, short))


def _find(prefix, n, tier="quick", timeout=300):
    return Obl("%s.repair-find-files-N%d" % (prefix, n), "repair/units.c", real=REAL, include_real=INC, kit=KIT,
               defs={"VP_MODE": 2, "VP_N": n, "VP_SLAB": 64, "VP_VEC_CAP": 4},
               unwind=14, unwindset={"find_files.0": n + 1},
               tier=tier, timeout=timeout, flags=FLAGS, sat="cadical",
               functions=["find_files", "ldb_array_push", "ldb_array_grow"],
               desc="real find_files(): MANIFEST/log/table numbers collected in listing order, foreign and other names not collected; "
                    "next_file_number == 1 + max number over every own non-MANIFEST name; empty directory => IOERR; listing failure "
                    "returned; listing released once",
               bounds="directory of <=%d entries, each an own name of any type (64-bit number, either spelling) or foreign; listing may fail" % n)


def _log(prefix, r, tier="quick", timeout=300):
    return Obl("%s.repair-convert-log-R%d" % (prefix, r), "repair/units.c", real=REAL, include_real=INC, kit=KIT,
               defs={"VP_MODE": 3, "VP_R": r, "VP_SLAB": 64, "VP_VEC_CAP": 4},
               unwind=14, unwindset={"convert_log_to_table.0": r + 2},
               tier=tier, timeout=timeout, flags=FLAGS, sat="cadical",
               functions=["convert_log_to_table", "report_corruption"],
               desc="real convert_log_to_table(): every record >= 12 bytes inserted exactly once in log order, shorter records reported "
                    "and skipped, a batch that fails to insert does not stop the log; table built after the whole log under a fresh "
                    "number (next_file_number++); scanned later iff built OK and non-empty; everything released",
               bounds="<=%d records with symbolic sizes 0..15, each insert OK or CORRUPTION, log open and table build may fail, symbolic "
                      "file size and counters" % r)


def repair_obls(prefix):
    return [_wd(prefix, 2, 2), _wd(prefix, 0, 1), _wd(prefix, 3, 3, tier="thorough"),
            _scan(prefix, 3, 0), _scan(prefix, 3, 2), _scan(prefix, 1, 1), _scan(prefix, 0, 0),
            _find(prefix, 4), _find(prefix, 0), _find(prefix, 6, tier="thorough"),
            _log(prefix, 3), _log(prefix, 0)]


# development entry: ./check repair_common
OBLIGATIONS = repair_obls("r")
META = {"level": "model_checking", "bounds": [], "outside": [], "models": []}
