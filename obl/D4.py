"""development-only driver for obl/dbimpl_compact.py (not a property)"""
from obl.dbimpl_compact import compaction_obls
OBLIGATIONS = compaction_obls("c")
META = {"level": "model_checking"}
