from obl.dbimpl_common import write_obls

OBLIGATIONS = write_obls("a", quick=((0, 1, 0, -1), (1, 0, 0, -1), (0, 0, 1, -1)), thorough=((1, 1, 0, -1), (0, 2, 0, 1), (1, 2, 0, -1)))
try:
    from obl.dbimpl_flushgc import flush_obls
    OBLIGATIONS += flush_obls("b")
except ImportError:
    pass

META = {
    "level": "other",
    "level_text": "Safety form of 'no lost wake-up', decided by bounded model checking (CBMC) of the real critical sections of db_impl.c (and thread_pool.c steps) with a ghost mutex/condvar layer: at every release of the mutex and at every wait, each writer popped from the queue is marked done and signalled, the new head is signalled, a writer that is head or done never waits, pending background work implies a scheduled compaction, and every exit path of the background call broadcasts after changing the state waiters test. No thread interleaving is enumerated and liveness under unfair schedulers is not decided.",
    "level_note": "Trusted: the rely/guarantee environment model (other threads act only while the mutex is released; bounded waits as a fairness assumption), CBMC semantics, the stubs listed in the evidence. This is a per-step invariant argument, not an exploration of schedules; deadlocks that involve orderings between different mutexes or the OS scheduler are outside.",
    "explanation": "Lost wake-ups are recast as the invariant 'every sleeping thread whose wait predicate is true has been signalled', asserted by monitoring stubs for ldb_cond_signal/broadcast/wait and ldb_mutex_unlock around one real API step from an arbitrary well-formed state.",
    "bounds": ["<=3 writers queued around the caller, <=2 waits per call, one background step"],
    "outside": ["real schedules, starvation, close racing with compaction end to end", "pthread primitives themselves"],
    "models": ["harness/dbimpl/world.h ghost sync layer"],
    "design_ref": "DESIGN.md section 6 C09",
}
