from obl.dbimpl_flushgc import gc_obls, flush_obls

# a.*  C13.a/e  the real ldb_remove_obsolete_files() against the reference keep rules
# c.*  C13.c/d  pending-output discipline and allocator use of the real flush path
#               (ldb_compact_memtable / ldb_write_level0_table / ldb_background_call);
#               the same obligations carry the C02.b, C03.d, C09.b and C12.a assertions
OBLIGATIONS = gc_obls("a") + flush_obls("c")

# b: the live set covers every file of every version still in the list, on every level (real
# ldb_versions_add_files / version ref-unref / append_version)
from obl.vset_more import versionlist_obls
OBLIGATIONS += versionlist_obls("b")

META = {
    "level": "model_checking",
    "level_text": "Bounded model checking (CBMC) of the real garbage collector ldb_remove_obsolete_files() and of the real memtable-flush path ldb_background_call() -> ldb_background_compaction() -> ldb_compact_memtable() -> ldb_write_level0_table() -> ldb_remove_obsolete_files() (db_impl.c #included, so the static functions themselves are executed) from arbitrary well-formed states. The set of unlinked directory entries is compared with an independent reference of the keep rules (foreign names, CURRENT, LOCK, LOG kept; log removed iff number < log_number and != prev_log_number; MANIFEST removed iff number < manifest_file_number; table/temp removed iff not in live U pending_outputs), removed tables are evicted, nothing is touched after a latched error, unlinking happens only with the mutex released. In the flush the new table's number is fresh, is in pending_outputs before and during ldb_build_table(), survives a collection that runs during the build, is never unlinked, no collection happens between the erase from pending_outputs and the install, and obsolete files are collected only after the edit was applied. Also: the live set computed by the real ldb_versions_add_files covers every file of every version in the list on every level 0..6, and version ref/unref/append keep the list exact.",
    "level_note": "Trusted: CBMC's semantics of the goto-cc translation; the name model kit/vp_names (ldb_parse_filename / ldb_join over encoded (type, number, spelling) buffers -- the real text parser/formatter of filename.c is decided by C18/C17, here its contract is assumed); the array model of the rb_set64 API for pending_outputs / live (the real util/rbt.c does not get through symbolic execution with symbolic keys); the stubs for ldb_versions_add_files (symbolic live set: that every version in the list is visited is C13.b, not decided here), ldb_build_table, ldb_versions_apply (installs log_number/prev_log_number as the real one does), version_edit.c setters (field stores), memtable, thread pool; the environment model of other threads (act only while the mutex is released: latch an error, begin shutdown, a writer switches memtables once imm is NULL; a single background thread). The compaction path (ldb_open_compaction_output_file / ldb_cleanup_compaction / ldb_install_compaction_results), ldb_open and whole-directory histories are not executed here; leak-freedom at quiescence (C13.e) is decided in the form 'a second collection in the same state removes nothing more' plus 'removed set == complement of the needed set'. No real thread interleaving is executed.",
    "bounds": ["ldb_remove_obsolete_files: directory of <=5 entries (quick; <=6 thorough), each an owned name with symbolic type, 64-bit number and spelling variant or a foreign name; <=3 (4) live table numbers; <=2 (3) pending outputs; symbolic log_number / prev_log_number / manifest_file_number (full 64 bit); symbolic bg_error; listing may fail; version counters havocked while the mutex is released",
               "flush / background call: one call; directory of 3 (5) arbitrary entries + the table being built; <=2 (3) live tables; <=1 (2) other pending outputs; symbolic next_file_number < 2^60, logfile_number, log_number <= logfile_number; symbolic results of ldb_build_table (OK/IOERR/CORRUPTION, file_size 0..2^40) and ldb_versions_apply (OK/IOERR/ENOSPC); pick level 0..2; bg_error and shutdown symbolic before the call and at every mutex release; optionally one concurrent collection during the build"],
    "outside": ["compaction outputs (ldb_open_compaction_output_file, ldb_cleanup_compaction), ldb_open's collection, repair: same collector, their pending/erase discipline is not decided by these obligations",
                "that ldb_versions_add_files really visits every version referenced by a live iterator (C13.b) and the real red-black tree",
                "directories with more than 5 (6) entries: each entry is decided independently by the code, but this is not proved",
                "text of file names (filename.c, C17/C18); failure of ldb_join for over-long paths (assumed to fit LDB_PATH_MAX)",
                "real thread schedules"],
    "models": ["harness/dbimpl/world.h ghost mutex/condvar with interference at every release",
               "harness/dbimpl/gcworld.h: directory, live set, recorders for ldb_remove_file / ldb_tables_evict / ldb_free_children, array model of rb_set64",
               "kit/vp_names.c encoded file names (ldb_parse_filename, ldb_join)",
               "kit/vp_alloc_d1.c (malloc never fails; typed pointer slab for the real util/vector.c), kit/vp_mem.c byte loops",
               "stubs in harness/dbimpl/flush.c: table builder, version set (apply, allocator, pick level), version_edit setters, memtable, iterator, thread pool, clock"],
    "design_ref": "DESIGN.md section 6 C13 (a, c, d, e); carries C02.b, C03.d, C09.b, C12.a",
}
