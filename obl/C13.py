from obl.dbimpl_flushgc import gc_obls, flush_obls

OBLIGATIONS = gc_obls("a") + flush_obls("c")

META = {}
