from obl.dbimpl_common import write_obls

OBLIGATIONS = write_obls("a", quick=((0, 0, 0, -1), (0, 1, 0, -1)), thorough=((1, 1, 0, -1), (0, 2, 0, 1)))
try:
    from obl.dbimpl_flushgc import flush_obls, gc_obls
    OBLIGATIONS += flush_obls("b") + gc_obls("b")
except ImportError:
    pass

from obl.c02_build import build_table_obls
OBLIGATIONS += build_table_obls("c")

# e: env layer: short writes, EINTR and errno propagation of the real env_unix_impl.h (write/read/pread loops, wfile, rfile)
from obl.envunix_common import wfile_obls, rwmisc_obls
OBLIGATIONS += [o for o in wfile_obls("e")] + [o for o in rwmisc_obls("e")]

# d: every I/O failure inside a compaction is returned, nothing is installed, bg_error is latched
from obl.dbimpl_compact import compaction_obls
OBLIGATIONS += [o for o in compaction_obls("d") if o.tier == "quick" and "faults1" in o.name][:3]

# f: every failure while writing the MANIFEST is returned, nothing is installed, nothing NULL is destroyed (F5)
from obl.vset_more import apply_obls
OBLIGATIONS += [o for o in apply_obls("f") if "shape0" in o.name or "shape1" in o.name]

META = {
    "level": "model_checking",
    "level_text": "Bounded model checking (CBMC) of the real db_impl.c write, flush and garbage-collection paths with every env/log call below them returning a symbolic error: a failed log append or sync is returned to the writer, inserts nothing and latches the background error so that every later write is refused (the defect F1 was found and repaired here); a failed table build / MANIFEST apply latches the error and leaves the immutable memtable and its log in place; nothing is deleted after a latched error; ldb_build_table, ldb_do_compaction_work and ldb_versions_apply return the first error of any step below them and install nothing (findings F1, F3, F5 were found and repaired through these obligations); the env layer's write/read loops handle short transfers and EINTR and return errno unchanged.",
    "level_note": "Trusted: CBMC semantics of the goto-cc translation; stubs of log writer, env, version set and memtable listed in the evidence; the environment model of other threads (interference only while the mutex is released). Fault sites are the calls of the units encoded here (one API step from an arbitrary state), not whole histories; process-level symptoms (crash/hang) beyond CBMC's memory-safety checks and mmap faults are outside.",
    "bounds": ["one ldb_write / one memtable flush / one GC pass from an arbitrary state; each env or log call may fail with IOERR/ENOSPC",
               "<=3 concurrent writers modelled as interference, <=2 waits, <=1 memtable switch"],
    "outside": ["fault sequences across many API calls (covered only through the latched-error invariant)", "read-path faults (pread/mmap)", "kernel/disk behaviour below write(2)/fsync(2)"],
    "models": ["harness/dbimpl/world.h", "harness/dbimpl/write.c stubs", "flush/gc stubs"],
    "design_ref": "DESIGN.md section 6 C12, section 8 F1",
}
