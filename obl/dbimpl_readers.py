"""Read side of the db_impl.c monitor family (harness/dbimpl/readers.c) and the
snapshot list (harness/C06/snaplist.c).  Factories return lists of Obl; the
prefix is the DESIGN sub-item letter of the property that uses them."""
from vp import Obl

KIT = ["vp_nondet.c", "vp_mem.c"]
KITA = ["vp_nondet.c", "vp_mem.c", "vp_alloc.c"]

SNAP_FUNCS = ["ldb_snaplist_init", "ldb_snaplist_empty", "ldb_snaplist_oldest", "ldb_snaplist_newest",
              "ldb_snaplist_new", "ldb_snaplist_delete"]
SNAP_OPS = {0: "queries", 1: "new", 2: "delete", 3: "new+delete", 4: "delete+new"}


def snaplist_obls(prefix):
    """src/snapshot.h from an arbitrary well-formed list of VP_N nodes."""
    out = []
    tuples = []
    for n in range(0, 4):
        tuples.append((n, 0, 0, "quick"))
        tuples.append((n, 1, 0, "quick"))
        for k in range(n):
            tuples.append((n, 2, k, "quick"))
            tuples.append((n, 4, k, "quick" if n == 2 else "thorough"))
        for k in range(n + 1):
            tuples.append((n, 3, k, "quick" if n in (0, 2) else "thorough"))
    for (n, op, k, tier) in tuples:
        name = "%s.snaplist-n%d-%s" % (prefix, n, SNAP_OPS[op])
        if op >= 2:
            name += "-k%d" % k
        out.append(Obl(name, "C06/snaplist.c", kit=KITA,
                       defs={"VP_N": n, "VP_OP": op, "VP_K": k},
                       unwind=n + 3, tier=tier, timeout=300, functions=SNAP_FUNCS,
                       desc="real snapshot.h list from an arbitrary well-formed sorted list: after %s the list is the expected circular list (next and prev links, node identity, untouched sequences), sorted; oldest == minimum, newest == maximum, empty <=> no node" % SNAP_OPS[op],
                       bounds="%d held snapshots, symbolic sequences < 2^56 (equal sequences allowed), operation %s%s" % (n, SNAP_OPS[op], (" on node %d" % k) if op >= 2 else "")))
    return out

READ_REAL = ["dbformat.c", "util/options.c"]
READ_FUNCS = {
    0: ["ldb_get", "ldb_has", "ldb_lkey_init", "ldb_lkey_clear", "ldb_maybe_schedule_compaction"],
    1: ["ldb_snapshot", "ldb_snaplist_new"],
    2: ["ldb_release", "ldb_snaplist_delete"],
    3: ["ldb_iterator", "ldb_internal_iterator", "ldb_istate_create", "ldb_istate_destroy", "cleanup_iter_state", "ldb_user_comparator"],
    4: ["ldb_record_read_sample", "ldb_maybe_schedule_compaction"],
}
READ_NAMES = {0: "get", 1: "snapshot", 2: "release", 3: "iterator", 4: "read-sample"}
READ_DESC = {
    0: "one real ldb_get() under interference at every lock/unlock: lookup key built with the snapshot's sequence else last_sequence of the critical section; mem/imm/current captured and ref'd in one critical section, the captured objects (not the havocked fields) searched in order mem, imm, version, search ends at the first answer; refs dropped once in a later critical section on every path; update_stats under the mutex, lookups without it",
    1: "one real ldb_snapshot(): node allocated and linked at the tail under the mutex, carries last_sequence of that critical section, other snapshots untouched",
    2: "one real ldb_release(): exactly the given node unlinked and freed under the mutex, other snapshots untouched",
    3: "one real ldb_iterator()/ldb_internal_iterator() + its cleanup: mem, imm, current ref'd under the mutex, exactly their iterators merged, cleanup_iter_state registered, db iterator built with the snapshot's sequence else last_sequence of the critical section; objects stay alive under interference; cleanup unrefs each once under the mutex",
    4: "one real ldb_record_read_sample(): current version read and charged under the mutex, compaction scheduled under the mutex",
}


# (fn, snap, optnull, has, klen, es, tier)
GET, SNAPSHOT, RELEASE, ITER, SAMPLE = 0, 1, 2, 3, 4
READ_ALL = (
    (GET, 0, 0, 0, 2, 2, "quick"), (GET, 1, 0, 0, 2, 2, "quick"), (GET, 1, 0, 1, 0, 1, "quick"), (GET, 0, 1, 0, 1, 0, "quick"),
    (GET, 0, 0, 1, 3, 2, "thorough"), (GET, 1, 0, 0, 3, 0, "thorough"), (GET, 1, 0, 0, 0, 2, "thorough"),
    (SNAPSHOT, 0, 0, 0, 2, 2, "quick"), (SNAPSHOT, 0, 0, 0, 2, 0, "quick"), (SNAPSHOT, 0, 0, 0, 2, 1, "thorough"),
    (RELEASE, 0, 0, 0, 2, 2, "quick"), (RELEASE, 0, 0, 0, 2, 0, "quick"), (RELEASE, 0, 0, 0, 2, 1, "quick"),
    (ITER, 0, 0, 0, 2, 2, "quick"), (ITER, 1, 0, 0, 2, 2, "quick"), (ITER, 0, 1, 0, 2, 0, "quick"), (ITER, 1, 0, 0, 2, 0, "thorough"),
    (SAMPLE, 0, 0, 0, 2, 0, "quick"),
)


def reader_obls(prefix, fns=(GET, SNAPSHOT, RELEASE, ITER, SAMPLE), want=None):
    """harness/dbimpl/readers.c.  fns: which API functions; want: optional
    predicate on the tuple (fn, snap, optnull, has, klen, es, tier)."""
    out = []
    for t in READ_ALL:
        (fn, snap, optnull, has, klen, es, tier) = t
        if fn not in fns or (want is not None and not want(t)):
            continue
        name = "%s.%s-snap%d-optnull%d-has%d-klen%d-es%d" % (prefix, READ_NAMES[fn], snap, optnull, has, klen, es)
        out.append(Obl(name, "dbimpl/readers.c", real=READ_REAL, include_real=["db_impl.c"], kit=KIT,
                       defs={"VP_FN": fn, "VP_SNAP": snap, "VP_OPTNULL": optnull, "VP_HAS": has, "VP_KLEN": klen, "VP_ES": es},
                       unwind=10, unwindset={"memcpy.0": klen + 2}, tier=tier, timeout=600,
                       functions=READ_FUNCS[fn], desc=READ_DESC[fn],
                       bounds="environment acts at every lock/unlock of the call: <=2 memtable switches, <=3 version installs, imm flush, last_sequence += 0..255 each time, <=%d other snapshots held + <=2 taken meanwhile; user key %d symbolic bytes; options %s, snapshot %s" % (
                           es, klen, "NULL (library defaults)" if optnull else "symbolic", "given (symbolic sequence)" if snap else "absent")))
    return out
