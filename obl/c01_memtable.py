from vp import Obl

KIT = ["vp_nondet.c", "vp_mem.c", "vp_alloc.c"]
REAL = ["memtable.c", "skiplist.c", "dbformat.c", "util/comparator.c", "util/buffer.c", "util/slice.c", "table/iterator.c"]
FUNCS = ["ldb_memtable_add", "ldb_memtable_get", "ldb_skiplist_insert", "ldb_skiplist_find_ge", "ldb_skipiter_seek",
         "ldb_skiplist_compare", "ldb_ikc_compare", "ldb_lkey_init", "ldb_memiter_create"]


def memtable_obls(prefix, quick=((1, 1, 0), (2, 2, 0), (3, 1, 0), (2, 2, 1)), thorough=((3, 2, 0), (4, 2, 0), (3, 3, 0), (3, 2, 1), (4, 3, 1))):
    out = []
    for tier, tuples in (("quick", quick), ("thorough", thorough)):
        for (n, h, scan) in tuples:
            defs = {"VP_N": n, "VP_HEIGHT": h}
            if scan:
                defs["VP_SCAN"] = 1
            out.append(Obl("%s.memtable-%s-N%d-H%d" % (prefix, "scan" if scan else "get", n, h), "C01/memtable.c",
                           real=REAL, kit=KIT, defs=defs, unwind=max(13, n + 3),
                           unwindset={"ldb_skiplist_find_ge.0": n + h + 2, "ldb_skiplist_insert.0": h + 1,
                                      "ldb_skiplist_insert.1": h + 1, "ldb_skiplist_randheight.0": h + 1,
                                      "memcmp.0": 3, "ldb_realloc.0": 25},
                           flags=["--no-bounds-check", "--slice-formula"], object_bits=11, tier=tier, timeout=900, functions=FUNCS,
                           desc="real memtable/skiplist: lookup == newest entry <= snapshot (value / deleted / miss); scan yields every entry once in internal-key order",
                           bounds="%d entries inserted in arbitrary order, node heights 1..%d, 1-byte user keys/values, sequences 1..15" % (n, h)))
    return out
