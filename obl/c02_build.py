from vp import Obl


def build_table_obls(prefix):
    out = []
    for n, tier in ((0, "quick"), (1, "quick"), (2, "quick"), (3, "thorough")):
        out.append(Obl("%s.build-table-N%d" % (prefix, n), "C02/build_table.c",
                       real=["builder.c", "version_edit.c", "dbformat.c", "util/options.c", "util/buffer.c",
                             "util/slice.c", "util/comparator.c"],
                       kit=["vp_nondet.c", "vp_mem.c", "vp_alloc.c"], defs={"VP_N": n}, unwind=12,
                       unwindset={"ldb_realloc.0": 25, "harness.0": 25},
                       tier=tier, timeout=600, functions=["ldb_build_table", "ldb_ikey_copy"],
                       desc="real ldb_build_table: OK only if create, adds in order, finish, sync, close, verify and the input iterator all succeeded, in that order; any failure returns an error and removes the file",
                       bounds="%d entries, every step may fail symbolically (OK / IOERR / ENOSPC)" % n))
    return out
