"""db_impl.c monitor family: garbage collection (harness/dbimpl/gc.c) and the
memtable flush / background call (harness/dbimpl/flush.c).  Factories shared
by C13 (owner) and C02/C03/C09/C12."""
from vp import Obl

KIT = ["vp_nondet.c", "vp_mem.c", "vp_alloc_d1.c", "vp_names.c"]
INC_REAL = ["db_impl.c", "util/vector.c"]

GC_FUNCS = ["ldb_remove_obsolete_files", "ldb_vector_init", "ldb_vector_push", "ldb_vector_grow", "ldb_vector_clear"]

GC_DESC = ("real ldb_remove_obsolete_files() from an arbitrary state: set of unlinked names == reference keep rules "
           "(foreign/CURRENT/LOCK/LOG keep; log < log_number and != prev_log_number; MANIFEST < manifest_file_number; "
           "table/temp not in live U pending_outputs), joined with dbname, removed tables evicted, nothing touched when "
           "bg_error is latched, unlink only with the mutex released, mutex held on return")


def _gc(prefix, n, live=3, pend=2, twice=0, tier="quick", timeout=600):
    defs = {"VP_N": n, "VP_LIVE": live, "VP_PEND": pend, "VP_TWICE": twice}
    uw = {"ldb_remove_obsolete_files.0": n + 1, "ldb_remove_obsolete_files.1": n + 1}
    name = "%s.gc-n%d-live%d-pend%d%s" % (prefix, n, live, pend, "-twice" if twice else "")
    return Obl(name, "dbimpl/gc.c", include_real=INC_REAL, kit=KIT, defs=defs,
               unwind=max(n, live + pend + 2, 12) + 1, unwindset=uw, tier=tier, timeout=timeout,
               flags=["--slice-formula"], sat="cadical",
               functions=GC_FUNCS,
               desc=GC_DESC + ("; a second collection removes nothing more" if twice else ""),
               bounds="<=%d directory entries (symbolic type, 64-bit number, spelling; or foreign), <=%d live table numbers, <=%d pending outputs, symbolic log/prev-log/manifest numbers, symbolic bg_error, listing may fail"
                      % (n, live, pend))


def gc_obls(prefix):
    out = []
    out.append(_gc(prefix, 2))
    out.append(_gc(prefix, 5))
    out.append(_gc(prefix, 2, twice=1))
    out.append(_gc(prefix, 0, tier="thorough"))
    out.append(_gc(prefix, 3, twice=1, tier="thorough"))
    out.append(_gc(prefix, 5, twice=1, tier="thorough"))
    out.append(_gc(prefix, 6, live=4, pend=3, tier="thorough", timeout=1800))
    return out


FLUSH_FUNCS = ["ldb_compact_memtable", "ldb_write_level0_table", "ldb_remove_obsolete_files", "ldb_record_background_error",
               "ldb_stats_init", "ldb_stats_add"]
BG_FUNCS = ["ldb_background_call", "ldb_background_compaction", "ldb_maybe_schedule_compaction"]

FLUSH_DESC = ("real ldb_compact_memtable()/ldb_write_level0_table() from an arbitrary state: new table number fresh and in "
              "pending_outputs during the build and never unlinked; edit has prev_log_number 0, log_number == logfile_number, "
              "file added iff OK and file_size>0 at the picked level; imm released and obsolete files collected only after a "
              "successful apply (then exactly the reference set); every failure latches bg_error, keeps imm, collects nothing")
BG_DESC = ("; ldb_background_call(): no work after error/shutdown, broadcast under the mutex after the last state change, "
           "scheduled flag cleared, rescheduled iff work remains and no error/shutdown")


def _flush(prefix, mode, envgc, n=4, live=2, pend=1, tier="quick", timeout=600):
    defs = {"VP_MODE": mode, "VP_ENVGC": envgc, "VP_N": n, "VP_LIVE": live, "VP_PEND": pend}
    uw = {"ldb_remove_obsolete_files.0": n + 1, "ldb_remove_obsolete_files.1": n + 1}
    name = "%s.%s%s-n%d-live%d-pend%d" % (prefix, "bgcall" if mode else "flush", "-envgc" if envgc else "", n, live, pend)
    return Obl(name, "dbimpl/flush.c", include_real=INC_REAL, kit=KIT, defs=defs,
               unwind=max(n, live + pend + 3, 12) + 1, unwindset=uw, tier=tier, timeout=timeout,
               flags=["--slice-formula"], sat="cadical",
               functions=FLUSH_FUNCS + GC_FUNCS + (BG_FUNCS if mode else []),
               desc=FLUSH_DESC + (BG_DESC if mode else "") + ("; a collection running during the build keeps the pending table" if envgc else ""),
               bounds="directory of %d arbitrary entries + the new table, <=%d live tables, <=%d other pending outputs, symbolic file/log/manifest numbers (64 bit), symbolic build/apply results and file size, symbolic bg_error/shutdown before and during the call, a writer may switch memtables once imm is NULL"
                      % (n - 1, live, pend))


def flush_obls(prefix):
    return [_flush(prefix, 0, 0), _flush(prefix, 0, 1, n=2, live=1, pend=1), _flush(prefix, 1, 0),
            _flush(prefix, 0, 1, tier="thorough"),
            _flush(prefix, 1, 1, tier="thorough"),
            _flush(prefix, 1, 0, n=6, live=3, pend=2, tier="thorough", timeout=1800)]
