"""C10 -- one handle can be shared by threads without data races (sequential monitors only)."""
from vp import Obl

KIT = ["vp_nondet.c", "vp_mem.c"]


def skiplist_obls(prefix):
    out = []
    tuples = [(0, 1, 0, "quick"), (1, 2, 0, "quick"), (2, 2, 0, "quick"), (2, 2, 1, "quick"), (3, 2, 0, "quick"),
              (3, 2, 1, "thorough"), (3, 3, 0, "thorough"), (4, 2, 0, "thorough")]
    for (n, h, mid, tier) in tuples:
        defs = {"VP_N": n, "VP_HEIGHT": h}
        if mid:
            defs["VP_MIDREAD"] = 1
        out.append(Obl("%s.skiplist-publication-N%d-H%d%s" % (prefix, n, h, "-midread" if mid else ""), "C10/skiplist.c",
                       real=["skiplist.c"], kit=KIT, defs=defs, guard=True,
                       unwind=max(14, n + 3),
                       unwindset={"ldb_skiplist_find_ge.0": n + h + 2, "ldb_skiplist_find_lt.0": n + h + 2,
                                  "ldb_skiplist_find_last.0": n + h + 2,
                                  "ldb_skiplist_insert.0": h + 1, "ldb_skiplist_insert.1": h + 1,
                                  "ldb_skiplist_randheight.0": h + 1},
                       flags=["--no-bounds-check", "--slice-formula"], object_bits=11, tier=tier, timeout=300,
                       functions=["ldb_skiplist_insert", "ldb_skiplist_find_ge", "ldb_skipnode_set", "ldb_skipnode_set_nb",
                                  "ldb_skipnode_next", "ldb_skipnode_next_nb", "ldb_skiplist_maxheight", "ldb_skipiter_seek",
                                  "ldb_skipiter_next", "ldb_skipiter_prev", "ldb_skipiter_first", "ldb_skipiter_last",
                                  "ldb_skiplist_contains", "ldb_skiplist_init"],
                       desc="real skiplist.c under the atomic-event hook",
                       bounds="%d inserts" % n))
    return out


OBLIGATIONS = skiplist_obls("c")
META = {"level": "other"}
