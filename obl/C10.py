"""C10 -- one handle can be shared by threads without data races (sequential monitors only)."""
from vp import Obl

KIT = ["vp_nondet.c", "vp_mem.c"]

SKIP_FUNCS = ["ldb_skiplist_insert", "ldb_skiplist_find_ge", "ldb_skipnode_set", "ldb_skipnode_set_nb",
              "ldb_skipnode_next", "ldb_skipnode_next_nb", "ldb_skiplist_maxheight", "ldb_skiplist_init"]
RD_NAMES = {0: "publication", 1: "reader-seek-next", 2: "reader-last-prev", 3: "reader-first-contains"}
RD_FUNCS = {0: [], 1: ["ldb_skipiter_seek", "ldb_skipiter_next"], 2: ["ldb_skipiter_last", "ldb_skipiter_prev", "ldb_skiplist_find_lt", "ldb_skiplist_find_last"],
            3: ["ldb_skipiter_first", "ldb_skiplist_contains"]}


def skiplist_obls(prefix):
    out = []
    # (heights of the inserts in order, reader group, mid-insert real reader, tier)
    tuples = [("", 0, 0, "quick"), ("", 1, 0, "quick"), ("", 2, 0, "quick"), ("", 3, 0, "quick")]
    for hs in ("1", "2", "3", "11", "12", "21", "22", "13", "31", "121", "212", "221"):
        tuples.append((hs, 0, 0, "quick"))
    for hs in ("23", "32", "33", "111", "112", "122", "211", "222", "123", "321", "313", "1212", "2121"):
        tuples.append((hs, 0, 0, "thorough"))
    for hs in ("2", "12", "21"):
        for rd in (1, 2, 3):
            tuples.append((hs, rd, 0, "quick"))
    for hs in ("22", "212", "121"):
        for rd in (1, 2, 3):
            tuples.append((hs, rd, 0, "thorough"))
    for hs in ("2", "12", "21", "22"):
        tuples.append((hs, 0, 1, "quick"))
    for hs in ("212", "121", "13", "31"):
        tuples.append((hs, 0, 1, "thorough"))
    for (hs, rd, mid, tier) in tuples:
        n = len(hs)
        h = max([int(c) for c in hs] + [1])
        defs = {"VP_N": n, "VP_HEIGHT": h, "VP_RD": rd}
        if n:
            defs["VP_HS"] = int(hs)
        if mid:
            defs["VP_MIDREAD"] = 1
        what = RD_NAMES[rd] + ("-midread" if mid else "")
        desc = ("real skiplist.c under the atomic-event hook: every store into a reader-reachable next[] slot is a release store of the "
                "new node, made after x->key and x->next[0..i] were stored (x->next[i] == the successor the slot holds); max_height only "
                "through the atomic macros, only grows; reference traversal at every atomic store of each insert and after it: every level "
                "sorted, NULL-terminated, complete nodes of sufficient height, sub-list of the level below, level 0 has all old keys")
        if rd:
            desc = ("real skiplist.c readers under the atomic-event hook: loads only, every next-pointer load is acquire, every followed pointer and "
                    "max_height read through the atomic accessors; results equal the reference (" + RD_NAMES[rd] + ")")
        if mid:
            desc += "; the REAL ldb_skipiter_seek/next run from the monitor between two stores (symbolically chosen) of the last insert returns the reference answer, with acquire loads"
        out.append(Obl("%s.skiplist-%s-H%s" % (prefix, what, hs or "none"), "C10/skiplist.c",
                       real=["skiplist.c"], kit=KIT, defs=defs, guard=True,
                       unwind=14,
                       unwindset={"ldb_skiplist_find_ge.0": n + h + 2, "ldb_skiplist_find_lt.0": n + h + 2,
                                  "ldb_skiplist_find_last.0": n + h + 2,
                                  "ldb_skiplist_insert.0": h + 1, "ldb_skiplist_insert.1": h + 1,
                                  "ldb_skiplist_randheight.0": h + 1},
                       flags=["--no-bounds-check", "--slice-formula"], object_bits=11, tier=tier, timeout=300,
                       functions=SKIP_FUNCS + RD_FUNCS[rd] + (RD_FUNCS[1] if mid else []),
                       desc=desc,
                       bounds="%d inserts of distinct symbolic 1-byte keys in arbitrary key order, node heights %s (concrete per query)%s" % (
                           n, ",".join(hs) or "-", "; symbolic reader target" if (rd or mid) else "")))
    return out


CACHE_OPS = {0: "insert", 1: "lookup", 2: "release", 3: "erase", 4: "prune", 5: "usage", 6: "id"}
CACHE_FUNCS = {0: ["lru_shard_insert", "lru_table_insert", "lru_shard_finish", "lru_table_remove", "lru_shard_unref", "lru_shard_append", "lru_shard_remove"],
               1: ["lru_shard_lookup", "lru_table_lookup", "lru_table_find", "lru_shard_ref"],
               2: ["lru_shard_release", "lru_shard_unref"],
               3: ["lru_shard_erase", "lru_table_remove", "lru_shard_finish", "lru_shard_unref"],
               4: ["lru_shard_prune", "lru_table_remove", "lru_shard_finish", "lru_shard_unref"],
               5: ["lru_shard_usage"], 6: ["ldb_lru_id"]}
CACHE_API = {0: "ldb_lru_insert", 1: "ldb_lru_lookup", 2: "ldb_lru_release", 3: "ldb_lru_erase", 4: "ldb_lru_prune", 5: "ldb_lru_usage", 6: "ldb_lru_id"}


def cache_obls(prefix):
    """shape: one digit per pre-existing entry (1 = cached, unreferenced; 2 = cached, in use; 3 = erased, still referenced)."""
    out = []
    tuples = []   # (op, shape, api, env, tier)
    INS, LOOK, REL, ERA, PRU, USE, ID = range(7)
    # shard level, one and two entries
    for op in (INS, LOOK, ERA, PRU, USE):
        tuples.append((op, "", 0, 0, "quick"))
        for sh in ("1", "2", "3"):
            tuples.append((op, sh, 0, 0, "quick"))
    for sh in ("2", "3"):
        tuples.append((REL, sh, 0, 0, "quick"))
    quick2 = {INS: ("11", "12", "23"), LOOK: ("12", "31"), REL: ("22", "32", "21"), ERA: ("12", "21"), PRU: ("11", "12"), USE: ("13",)}
    all2 = [a + b for a in "123" for b in "123"]
    for op in (INS, LOOK, REL, ERA, PRU, USE):
        for sh in all2:
            if op == REL and "2" not in sh and "3" not in sh:
                continue
            tuples.append((op, sh, 0, 0, "quick" if sh in quick2[op] else "thorough"))
    for op, shapes in ((INS, ("111", "112", "121", "213")), (LOOK, ("123",)), (REL, ("212", "321")), (ERA, ("121", "213")), (PRU, ("111", "121"))):
        for sh in shapes:
            tuples.append((op, sh, 0, 0, "thorough"))
    # another thread got the lock first
    for op, shapes in ((INS, ("12",)), (LOOK, ("11", "12")), (REL, ("21", "22")), (ERA, ("11",))):
        for sh in shapes:
            tuples.append((op, sh, 0, 1, "quick"))
    for op, shapes in ((INS, ("11", "21", "112")), (LOOK, ("21", "121")), (REL, ("212",)), (ERA, ("12", "21"))):
        for sh in shapes:
            tuples.append((op, sh, 0, 1, "thorough"))
    # public API on the whole cache object
    for op in (INS, LOOK, ERA, PRU, USE, ID):
        tuples.append((op, "", 1, 0, "quick"))
    for op, sh in ((INS, "1"), (LOOK, "1"), (REL, "2"), (ERA, "1"), (PRU, "1"), (USE, "1")):
        tuples.append((op, sh, 1, 0, "thorough"))
    for (op, sh, api, env, tier) in tuples:
        e = len(sh)
        defs = {"VP_OP": op, "VP_E": e}
        if e:
            defs["VP_SHAPE"] = int(sh)
        if api:
            defs["VP_API"] = 1
        if env:
            defs["VP_ENV"] = 1
        # which reachability witnesses exist for this shape (concrete per query)
        if (op in (INS, ERA, PRU) and "1" in sh) or (op == REL and "3" in sh) or (env and "1" in sh):
            defs["VP_W_FREED"] = 1
        if op == REL and "3" in sh:
            defs["VP_W_RELLAST"] = 1
        if op == REL and "2" in sh:
            defs["VP_W_RELLRU"] = 1
        if op == LOOK and ("1" in sh or "2" in sh):
            defs["VP_W_HIT"] = 1
        name = "%s.cache-%s-%s-S%s%s" % (prefix, "api" if api else "shard", CACHE_OPS[op], sh or "none", "-env" if env else "")
        out.append(Obl(name, "C10/cache.c", include_real=["util/cache.c"], kit=KIT, defs=defs,
                       unwind=18,
                       # the resize path of lru_table_insert is infeasible at this size (elems <= 4 == length): bound 1 + unwinding assertion proves it
                       unwindset={"memcpy.0": 2, "memcmp.0": 2, "memset.0": 1, "lru_table_resize.0": 1, "lru_table_resize.1": 1,
                                  "lru_table_resize.2": 1, "lru_shard_insert.0": e + 2, "lru_shard_prune.0": e + 2,
                                  "lru_table_find.0": e + 2},
                       replace_calls=(["ldb_lru_shard:vp_lru_shard"] if api else []),
                       flags=["--slice-formula"], tier=tier, timeout=300,
                       functions=CACHE_FUNCS[op] + ([CACHE_API[op], "ldb_lru_hash"] if api else []),
                       desc="real util/cache.c %s from an arbitrary well-formed shard: shard mutex taken once before and released after every access to table/lists/refs/usage (state == ghost at lock, at unlock, on return), no other or nested lock, nothing held on return; effect == cache semantics on the ghost; representation invariant; entries freed exactly when the last reference goes, after one deleter call%s" % (
                           (CACHE_API[op] + "()") if api else ("lru_shard_" + CACHE_OPS[op] + "()"),
                           "; another thread erased / still holds an entry before the lock was granted" if env else ""),
                       bounds="%d pre-existing entries of classes [%s] (1 cached+unreferenced, 2 cached+in use by 1..2 clients, 3 erased but referenced by 1..2 clients); symbolic 1-byte keys 0..3, symbolic hashes incl. full and bucket collisions, charges 0..255, chain order symbolic, capacity 0..65535, hash table of 4 buckets (no resize)%s" % (
                           e, ",".join(sh) or "-", "; whole cache object, other 15 shards empty" if api else "; stand-alone shard object")))
    return out


OBLIGATIONS = skiplist_obls("c") + cache_obls("b")
META = {"level": "other"}
