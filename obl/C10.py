"""C10 -- one handle can be shared by threads without data races (sequential monitors only)."""
from vp import Obl

KIT = ["vp_nondet.c", "vp_mem.c"]

SKIP_FUNCS = ["ldb_skiplist_insert", "ldb_skiplist_find_ge", "ldb_skipnode_set", "ldb_skipnode_set_nb",
              "ldb_skipnode_next", "ldb_skipnode_next_nb", "ldb_skiplist_maxheight", "ldb_skiplist_init"]
RD_NAMES = {0: "publication", 1: "reader-seek-next", 2: "reader-last-prev", 3: "reader-first-contains"}
RD_FUNCS = {0: [], 1: ["ldb_skipiter_seek", "ldb_skipiter_next"], 2: ["ldb_skipiter_last", "ldb_skipiter_prev", "ldb_skiplist_find_lt", "ldb_skiplist_find_last"],
            3: ["ldb_skipiter_first", "ldb_skiplist_contains"]}


def skiplist_obls(prefix):
    out = []
    # (heights of the inserts in order, reader group, mid-insert real reader, tier)
    tuples = [("", 0, 0, "quick"), ("", 1, 0, "quick"), ("", 2, 0, "quick"), ("", 3, 0, "quick")]
    for hs in ("1", "2", "11", "12", "21", "22", "121", "212"):
        tuples.append((hs, 0, 0, "quick"))
    for hs in ("3", "13", "31", "221", "23", "32", "33", "111", "112", "122", "211", "222", "123", "321", "313", "1212", "2121"):
        tuples.append((hs, 0, 0, "thorough"))
    for hs in ("2", "12", "21"):
        for rd in (1, 2, 3):
            tuples.append((hs, rd, 0, "quick"))
    for hs in ("22", "212", "121"):
        for rd in (1, 2, 3):
            tuples.append((hs, rd, 0, "thorough"))
    for hs in ("2", "12", "21", "22"):
        tuples.append((hs, 0, 1, "quick"))
    for hs in ("212", "121", "13", "31"):
        tuples.append((hs, 0, 1, "thorough"))
    for (hs, rd, mid, tier) in tuples:
        n = len(hs)
        h = max([int(c) for c in hs] + [1])
        defs = {"VP_N": n, "VP_HEIGHT": h, "VP_RD": rd}
        if n:
            defs["VP_HS"] = int(hs)
        if mid:
            defs["VP_MIDREAD"] = 1
        what = RD_NAMES[rd] + ("-midread" if mid else "")
        desc = ("real skiplist.c under the atomic-event hook: every store into a reader-reachable next[] slot is a release store of the "
                "new node, made after x->key and x->next[0..i] were stored (x->next[i] == the successor the slot holds); max_height only "
                "through the atomic macros, only grows; reference traversal at every atomic store of each insert and after it: every level "
                "sorted, NULL-terminated, complete nodes of sufficient height, sub-list of the level below, level 0 has all old keys")
        if rd:
            desc = ("real skiplist.c readers under the atomic-event hook: loads only, every next-pointer load is acquire, every followed pointer and "
                    "max_height read through the atomic accessors; results equal the reference (" + RD_NAMES[rd] + ")")
        if mid:
            desc += "; the REAL ldb_skipiter_seek/next run from the monitor between two stores (symbolically chosen) of the last insert returns the reference answer, with acquire loads"
        out.append(Obl("%s.skiplist-%s-H%s" % (prefix, what, hs or "none"), "C10/skiplist.c",
                       real=["skiplist.c"], kit=KIT, defs=defs, guard=True,
                       unwind=14,
                       unwindset={"ldb_skiplist_find_ge.0": n + h + 2, "ldb_skiplist_find_lt.0": n + h + 2,
                                  "ldb_skiplist_find_last.0": n + h + 2,
                                  "ldb_skiplist_insert.0": h + 1, "ldb_skiplist_insert.1": h + 1,
                                  "ldb_skiplist_randheight.0": h + 1},
                       flags=["--no-bounds-check", "--slice-formula"], object_bits=11, tier=tier, timeout=300,
                       functions=SKIP_FUNCS + RD_FUNCS[rd] + (RD_FUNCS[1] if mid else []),
                       desc=desc,
                       bounds="%d inserts of distinct symbolic 1-byte keys in arbitrary key order, node heights %s (concrete per query)%s" % (
                           n, ",".join(hs) or "-", "; symbolic reader target" if (rd or mid) else "")))
    return out


CACHE_OPS = {0: "insert", 1: "lookup", 2: "release", 3: "erase", 4: "prune", 5: "usage", 6: "id"}
CACHE_FUNCS = {0: ["lru_shard_insert", "lru_table_insert", "lru_shard_finish", "lru_table_remove", "lru_shard_unref", "lru_shard_append", "lru_shard_remove"],
               1: ["lru_shard_lookup", "lru_table_lookup", "lru_table_find", "lru_shard_ref"],
               2: ["lru_shard_release", "lru_shard_unref"],
               3: ["lru_shard_erase", "lru_table_remove", "lru_shard_finish", "lru_shard_unref"],
               4: ["lru_shard_prune", "lru_table_remove", "lru_shard_finish", "lru_shard_unref"],
               5: ["lru_shard_usage"], 6: ["ldb_lru_id"]}
CACHE_API = {0: "ldb_lru_insert", 1: "ldb_lru_lookup", 2: "ldb_lru_release", 3: "ldb_lru_erase", 4: "ldb_lru_prune", 5: "ldb_lru_usage", 6: "ldb_lru_id"}


def cache_obls(prefix):
    """shape: one digit per pre-existing entry (1 = cached, unreferenced; 2 = cached, in use; 3 = erased, still referenced)."""
    out = []
    tuples = []   # (op, shape, api, env, tier)
    INS, LOOK, REL, ERA, PRU, USE, ID = range(7)
    # shard level, one and two entries
    for op in (INS, LOOK, ERA, PRU, USE):
        tuples.append((op, "", 0, 0, "quick"))
        for sh in ("1", "2", "3"):
            tuples.append((op, sh, 0, 0, "quick"))
    for sh in ("2", "3"):
        tuples.append((REL, sh, 0, 0, "quick"))
    quick2 = {INS: ("11", "12", "23"), LOOK: ("12", "31"), REL: ("22", "32", "21"), ERA: ("12", "21"), PRU: ("11", "12"), USE: ("13",)}
    all2 = [a + b for a in "123" for b in "123"]
    for op in (INS, LOOK, REL, ERA, PRU, USE):
        for sh in all2:
            if op == REL and "2" not in sh and "3" not in sh:
                continue
            tuples.append((op, sh, 0, 0, "quick" if sh in quick2[op] else "thorough"))
    for op, shapes in ((INS, ("111", "112", "121", "213")), (LOOK, ("123",)), (REL, ("212", "321")), (ERA, ("121", "213")), (PRU, ("111", "121"))):
        for sh in shapes:
            tuples.append((op, sh, 0, 0, "thorough"))
    # another thread got the lock first
    for op, shapes in ((INS, ("12",)), (LOOK, ("11", "12")), (REL, ("21", "22")), (ERA, ("11",))):
        for sh in shapes:
            tuples.append((op, sh, 0, 1, "quick"))
    for op, shapes in ((INS, ("11", "21", "112")), (LOOK, ("21", "121")), (REL, ("212",)), (ERA, ("12", "21"))):
        for sh in shapes:
            tuples.append((op, sh, 0, 1, "thorough"))
    # public API on the whole cache object
    for op in (INS, LOOK, ERA, PRU, USE, ID):
        tuples.append((op, "", 1, 0, "quick"))
    for op, sh in ((INS, "1"), (LOOK, "1"), (REL, "2"), (ERA, "1"), (PRU, "1"), (USE, "1")):
        tuples.append((op, sh, 1, 0, "thorough"))
    for (op, sh, api, env, tier) in tuples:
        e = len(sh)
        slow = (op == INS) or (op == PRU and sh == "12")
        if slow:
            tier = "thorough"   # insert: 12-40 M clauses, 2-8 min per query (see DESIGN note in the final report)
        defs = {"VP_OP": op, "VP_E": e}
        if e:
            defs["VP_SHAPE"] = int(sh)
        if api:
            defs["VP_API"] = 1
        if env:
            defs["VP_ENV"] = 1
        # which reachability witnesses exist for this shape (concrete per query)
        if (op in (INS, ERA, PRU) and "1" in sh) or (op == REL and "3" in sh) or (env and "1" in sh):
            defs["VP_W_FREED"] = 1
        if op == REL and "3" in sh:
            defs["VP_W_RELLAST"] = 1
        if op == REL and "2" in sh:
            defs["VP_W_RELLRU"] = 1
        if op == LOOK and ("1" in sh or "2" in sh):
            defs["VP_W_HIT"] = 1
        name = "%s.cache-%s-%s-S%s%s" % (prefix, "api" if api else "shard", CACHE_OPS[op], sh or "none", "-env" if env else "")
        out.append(Obl(name, "C10/cache.c", include_real=["util/cache.c"], kit=KIT, defs=defs,
                       unwind=18,
                       # the resize path of lru_table_insert is infeasible at this size (elems <= 4 == length): bound 1 + unwinding assertion proves it
                       unwindset={"memcpy.0": 2, "memcmp.0": 2, "memset.0": 1, "lru_table_resize.0": 1, "lru_table_resize.1": 1,
                                  "lru_table_resize.2": 1, "lru_shard_insert.0": e + 2, "lru_shard_prune.0": e + 2,
                                  "lru_table_find.0": e + 2},
                       replace_calls=(["ldb_lru_shard:vp_lru_shard"] if api else []),
                       flags=["--slice-formula"], tier=tier, timeout=(1200 if slow else 300), mem_gb=(20 if slow else 12),
                       functions=CACHE_FUNCS[op] + ([CACHE_API[op], "ldb_lru_hash"] if api else []),
                       desc="real util/cache.c %s from an arbitrary well-formed shard: shard mutex taken once before and released after every access to table/lists/refs/usage (state == ghost at lock, at unlock, on return), no other or nested lock, nothing held on return; effect == cache semantics on the ghost; representation invariant; entries freed exactly when the last reference goes, after one deleter call%s" % (
                           (CACHE_API[op] + "()") if api else ("lru_shard_" + CACHE_OPS[op] + "()"),
                           "; another thread erased / still holds an entry before the lock was granted" if env else ""),
                       bounds="%d pre-existing entries of classes [%s] (1 cached+unreferenced, 2 cached+in use by 1..2 clients, 3 erased but referenced by 1..2 clients); symbolic 1-byte keys 0..3, symbolic hashes incl. full and bucket collisions, charges 0..255, chain order symbolic, capacity 0..65535, hash table of 4 buckets (no resize)%s" % (
                           e, ",".join(sh) or "-", "; whole cache object, other 15 shards empty" if api else "; stand-alone shard object")))
    return out


def dbimpl_obls(prefix):
    """C10.a: lock discipline of db_impl.c, by the existing monitor harnesses (ghost db mutex: ldb_mutex_assert_held
    sites re-enabled as assertions, shared fields compared with ghost copies at every lock, havocked while unlocked)."""
    out = []
    try:
        from obl.dbimpl_readers import reader_obls, GET, SNAPSHOT, RELEASE, ITER, SAMPLE
        keep = {(GET, 0, 0, 0, 2, 2), (SNAPSHOT, 0, 0, 0, 2, 2), (RELEASE, 0, 0, 0, 2, 2), (ITER, 0, 0, 0, 2, 2), (SAMPLE, 0, 0, 0, 2, 0)}
        out += reader_obls(prefix, want=lambda t: t[:6] in keep)
    except ImportError:
        pass
    try:
        from obl.dbimpl_common import write_obls
        out += write_obls(prefix, quick=((0, 1, 0, -1),), thorough=())
    except ImportError:
        pass
    return out


OBLIGATIONS = dbimpl_obls("a") + cache_obls("b") + skiplist_obls("c")

META = {
    "level": "other",
    "level_text": "Sequential lock-discipline and memory-order monitors, decided by bounded model checking (CBMC 6.11) of the real translation units. "
                  "NO thread is created and NO interleaving is explored: CBMC 6.11 refuses multi-threaded programs that share pointers. "
                  "What is decided is the discipline from which race freedom follows: (a) db_impl.c reads and writes its shared fields only with the "
                  "db mutex held (ghost mutex, ghost copies compared at every lock, interference while unlocked); (b) every operation of util/cache.c "
                  "takes the shard mutex before and releases it after every access to the shard's table, lists, reference counts and usage, on every path, "
                  "and frees an entry exactly when its last reference goes; (c) skiplist.c publishes a node only with release stores made after the node "
                  "is complete for the level it becomes reachable on, readers follow pointers only with acquire loads, max_height is accessed only through "
                  "the atomic macros, and the list seen between any two stores of an insert is a consistent sorted list containing all earlier keys.",
    "level_note": "Trusted, not checked: the step from 'every access to monitored shared state is ordered by the lock or by a release/acquire pair' to "
                  "'no data race' (C11 memory model); the hardware and the compiler's implementation of the atomic built-ins and of pthread mutexes; the atomic-access "
                  "hook (src/util/atomic.h under CHJJ_LCDB_VERIF turns each ldb_atomic_* access into a monitor call followed by a plain access); "
                  "CBMC's semantics; the models listed. Races on state that is NOT reached through the monitored accessors are outside: a plain (non-macro) "
                  "access to a next pointer or to arena/usage counters is only noticed where an event count or a value change gives it away "
                  "(max_height stores, pointer loads per iterator step), not in general.",
    "explanation": "A data race needs two unordered conflicting accesses. Instead of exploring schedules, each unit is run once, sequentially, with monitors "
                   "below it that check the ordering discipline at every lock, unlock and atomic access: the ghost mutex says whether protected state may be touched, "
                   "ghost copies detect writes outside the critical section, the environment (another thread) acts while the mutex is free, and the atomic-event "
                   "stream of the real skip list is checked against the publication protocol (initialise, then release-store; acquire-load, then read), with a "
                   "reference traversal of all levels at every store to show that a lock-free reader running at that moment sees a well-formed list.",
    "bounds": [
        "skip list: 0..3 inserts (thorough: 4) of distinct symbolic 1-byte keys in arbitrary key order, node heights concrete per query in 1..3, every height combination listed in the queries; one symbolic reader target; real reader run between two stores of the last insert at a symbolically chosen store",
        "cache: one operation from a shard with 0..2 (thorough: 3) pre-existing entries whose class (cached+unreferenced / cached+in use / erased but referenced) is concrete per query; keys 0..3, hashes symbolic incl. collisions, charges 0..255, capacity 300 (eviction on both sides of the limit), 4 hash buckets, no table resize; lru_shard_insert queries are in the thorough tier only (2-8 min each)",
        "db_impl: one API call (get, snapshot, release, iterator, read sample, write with one follower) from an arbitrary well-formed state with interference at every lock/unlock, as in C08",
    ],
    "outside": [
        "every real interleaving; weak-memory behaviour of the hardware; torn or reordered plain accesses",
        "state not reached through the monitored accessors (plain accesses that bypass ldb_atomic_* or the mutex-protected functions)",
        "reads of protected cache state before the lock is taken are detected only through the 'another thread erased/holds an entry first' variants",
        "arena usage counter, has_imm / shutting_down orders (DESIGN C10.c tail, C08.c) and thread_pool.c (C09.c): not built in this round",
        "table-cache / block-cache clients of cache.c, snapshots and files being retired: covered only through C13 / the cache obligations here, not end to end",
        "hash table resize of cache.c (more than 4 entries per shard)",
    ],
    "models": [
        "harness/C10/skiplist.c: arena = one typed full-height node object per skip node (so CBMC's array-bounds check is off: --no-bounds-check; the monitor checks next[i] indices against the allocated height itself); random height = concrete per query; comparator = first key byte; ldb_verif_atomic_event = the monitor",
        "harness/C10/cache.c: ldb_mutex_* = ghost flags; ldb_hash = symbolic table with the shard bits fixed; ldb_malloc/ldb_free = typed malloc/free of one lru_handle_t plus ghost bookkeeping; ldb_lru_shard replaced by a constant-returning model that asserts it equals the real expression (API queries); deleter = recording stub",
        "harness/dbimpl/world.h ghost sync layer and the stubs of harness/dbimpl/readers.c, write.c (see C08)",
    ],
    "assumptions": [
        "source hook 1507baa (CHJJ_LCDB_VERIF) reports every ldb_atomic_load/store[_ptr]/fetch_add/fetch_sub before performing it as a plain access",
    ],
    "design_ref": "DESIGN.md section 6 C10 (a, b, c); section 5 H1; section 11.4",
}
