#!/bin/sh
# Nothing is prebuilt: every check rebuilds its goto binaries from /repo on
# each run.  Setup only verifies that the offline tools are present.
set -e
for t in cbmc goto-cc goto-instrument gcc python3; do
  command -v "$t" >/dev/null 2>&1 || { echo "missing tool: $t" >&2; exit 1; }
done
cbmc --version >/dev/null
mkdir -p /verif/evidence /verif/replays
echo "setup ok"
